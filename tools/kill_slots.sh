#!/bin/bash
# stop every background sensitivity batch (tools/process_mutants.sh and what it started)
for pat in "run_sweep_tail.sh" "run_sweep.sh" "process_mutants.sh" "tools/mutant.sh" "vet_mutant.sh" "mut-slot-[0-9]*/target" "vet-wt-"; do
  for pid in $(pgrep -f "$pat"); do
    [ "$pid" != "$$" ] && kill "$pid" 2>/dev/null
  done
done
sleep 1
pgrep -f "mut-slot-[0-9]*/target" | wc -l
