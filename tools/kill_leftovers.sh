#!/bin/bash
# kill test / fuzz processes that finished sub-agents left running under their worktrees
for n in 01 02 03 04 07 09 11 12 16 18; do
  for pid in $(pgrep -f "/tmp/r2-C$n/"); do
    [ "$pid" != "$$" ] && kill -9 "$pid" 2>/dev/null
  done
done
sleep 1
uptime
