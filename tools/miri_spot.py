#!/usr/bin/env python3
"""Miri spot check (thorough tier of C10 and C18): the same simulator binary and
the same seeded runs, interpreted by Miri, which also sees what the checked
native build cannot (invalid values out of mem::zeroed, use of freed memory,
aliasing violations, leaks are not checked).

usage: miri_spot.py <PROP> <seed> <procs> <runs_per_proc> <verif_root> [<dir of check script>]
exit 0 = clean, 1 = VIOLATION printed, 2 = harness problem (Miri unavailable ...)
"""
import json
import os
import subprocess
import sys
import time

prop, seed, procs, rpp, root = sys.argv[1], int(sys.argv[2]), int(sys.argv[3]), int(sys.argv[4]), sys.argv[5]
here = sys.argv[6] if len(sys.argv) > 6 else root
sim = os.path.join(here, "sim")
work = os.path.join(root, "work")
os.makedirs(work, exist_ok=True)
env = dict(os.environ, MIRIFLAGS="-Zmiri-disable-isolation", CARGO_NET_OFFLINE="true")
t0 = time.time()
# prime the build once so that the parallel interpreters only run
p = subprocess.run(["cargo", "+nightly", "miri", "run", "--offline", "--", "list"], cwd=sim, env=env, stdout=subprocess.DEVNULL, stderr=subprocess.PIPE, text=True)
if p.returncode != 0:
    print("HARNESS: Miri is not usable here: " + p.stderr[-400:], file=sys.stderr)
    sys.exit(2)
total = procs * rpp
children = []
for w in range(procs):
    out = open(os.path.join(work, "miri-%s-%d.out" % (prop, w)), "w")
    err = open(os.path.join(work, "miri-%s-%d.err" % (prop, w)), "w")
    c = subprocess.Popen(
        ["cargo", "+nightly", "miri", "run", "--offline", "--", "worker", "--prop", prop, "--tier", "miri", "--seed", str(seed), "--workers", str(procs), "--index", str(w), "--runs", str(total), "--watchdog", "1200"],
        cwd=sim, env=env, stdout=out, stderr=err)
    children.append((w, c, out, err))
runs_done = 0
failures = []
for w, c, out, err in children:
    rc = c.wait()
    out.close()
    err.close()
    lines = open(out.name).read().splitlines()
    last = None
    for l in lines:
        if l.startswith("R "):
            last = int(l[2:])
        if l.startswith("S "):
            try:
                runs_done += json.loads(l[2:]).get("runs", 0)
            except Exception:
                pass
        if l.startswith("F "):
            failures.append((w, last, "oracle failure under Miri: " + l[2:300]))
    if rc != 0:
        lines_err = open(err.name).read().splitlines()
        first = next((i for i, l in enumerate(lines_err) if l.startswith("error")), max(0, len(lines_err) - 12))
        tail = " | ".join(l.strip() for l in lines_err[first:first + 12] if l.strip())[:1500]
        failures.append((w, last, "Miri stopped the interpreter (exit %d): %s" % (rc, tail)))
    os.remove(out.name)
    os.remove(err.name)
violations = 0
records = []
for w, run, what in failures[:3]:
    if run is None:
        print("HARNESS: Miri worker %d failed before its first run: %s" % (w, what), file=sys.stderr)
        sys.exit(2)
    rep = os.path.join(root, "replays")
    os.makedirs(rep, exist_ok=True)
    path = os.path.join(rep, "%s-%d-miri-run%d.json" % (prop, seed, run))
    native = os.path.join(here, "target", "release", "itree-sim")
    subprocess.run([native, "dump-trace", "--prop", prop, "--tier", "miri", "--seed", str(seed), "--run", str(run), "--out", path, "--engine", "miri", "--note", what[:600]], check=False)
    print("VIOLATION property=%s replay=%s" % (prop, path))
    print("  " + what[:600])
    violations += 1
    records.append({"replay": path, "what": what[:600]})
wall = time.time() - t0
ev_path = os.path.join(root, "evidence", prop + ".json")
try:
    ev = json.load(open(ev_path))
    ev["coverage"]["miri_spot_check"] = {
        "runs_interpreted": runs_done, "processes": procs, "wall_s": round(wall, 1),
        "flags": "-Zmiri-disable-isolation", "findings": records,
        "what": "the same seeded runs (short histories) executed under Miri: every memory access, uninitialised read, invalid value and aliasing rule is checked by the interpreter"}
    ev["violations"] = ev.get("violations", 0) + violations
    ev["wall_s"] = round(ev.get("wall_s", 0) + wall, 3)
    json.dump(ev, open(ev_path, "w"), indent=1)
except Exception as e:
    print("HARNESS: cannot merge Miri results into evidence: %s" % e, file=sys.stderr)
    sys.exit(2)
print("miri spot check %s: %d runs interpreted on %d processes, %d finding(s), %.0fs" % (prop, runs_done, procs, violations, wall))
sys.exit(1 if violations else 0)
