#!/bin/bash
# Confirm a sub-agent's mutant independently in a scratch worktree:
#   the patch applies, the repository's 59 tests still pass with it,
#   the demonstration fails with it and passes without it.
#   tools/vet_mutant.sh <patch.diff> <demo.rs> [inline]     (inline: demo is a #[cfg(test)] module to append to src/seg/tree.rs)
PATCH="$(readlink -f "$1")"; DEMO="$(readlink -f "$2")"; MODE="$3"
WT=/tmp/vet-wt-$$
git -C /repo worktree add --detach "$WT" HEAD >/dev/null 2>&1 || { echo "cannot create worktree"; exit 2; }
cleanup() { git -C /repo worktree remove --force "$WT" >/dev/null 2>&1; rm -rf "$WT"; }
trap cleanup EXIT
cd "$WT" || exit 2
export CARGO_NET_OFFLINE=true CARGO_TARGET_DIR=${CARGO_TARGET_DIR:-/tmp/vet-target}
place_demo() { if [ "$MODE" = inline ]; then cat "$DEMO" >> src/seg/tree.rs; else cp "$DEMO" tests/zz_demo.rs; fi; }
run_demo() { if [ "$MODE" = inline ]; then timeout 600 cargo test --offline --lib 2>&1 | grep -E "^test result" | head -1; else timeout 600 cargo test --offline --test zz_demo 2>&1 | grep -E "^test result|error(\[|:)|timed out|signal|SIGSEGV|SIGABRT" | head -3; fi; }
# 1. without the change the demo passes
place_demo
R0=$(run_demo)
echo "demo on unchanged code: $R0"
git checkout -q -- . ; rm -f tests/zz_demo.rs
# 2. patch applies; test suite passes
git apply "$PATCH" || { echo "PATCH DOES NOT APPLY"; exit 1; }
T=$(cargo test --offline --workspace --no-fail-fast 2>&1 | grep -E "^test result")
echo "suite with change: $(echo "$T" | awk '{p+=$4; f+=$6} END {print p" passed, "f" failed"}')"
# 3. demo fails with the change
place_demo
R1=$(run_demo)
[ -z "$R1" ] && R1="(no test result line: the test binary died or timed out)"
echo "demo with change: $R1"
