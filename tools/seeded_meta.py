#!/usr/bin/env python3
"""Write seeded/<id>/meta.json for every seeded change from the files the tools
left there (agent_notes.txt, vet.txt, checks.txt) and print the markdown table
used in DESIGN.md section 8.4."""
import json
import os
import re
import sys

root = os.path.join(os.path.dirname(os.path.abspath(__file__)), "..", "seeded")
rows = []
for name in sorted(os.listdir(root)):
    d = os.path.join(root, name)
    if not os.path.isdir(d) or name.startswith("own-"):
        continue
    m = re.match(r"(C\d+)-((?:r\d)?m\d+)", name)
    if not m:
        continue
    target = m.group(1)
    notes = open(os.path.join(d, "agent_notes.txt")).read() if os.path.exists(os.path.join(d, "agent_notes.txt")) else ""
    vet = open(os.path.join(d, "vet.txt")).read() if os.path.exists(os.path.join(d, "vet.txt")) else ""
    checks = open(os.path.join(d, "checks.txt")).read() if os.path.exists(os.path.join(d, "checks.txt")) else ""
    caught = []
    mms = re.findall(r"CAUGHT-BY:(.*)", checks)
    mm = mms[-1] if mms else None
    if mm is not None:
        caught = mm.split()
    else:
        # no finished evaluation on file (e.g. an interrupted re-evaluation): keep what was recorded
        mp_old = os.path.join(d, "meta.json")
        if os.path.exists(mp_old):
            try:
                old_meta = json.load(open(mp_old))
                caught = old_meta.get("caught_by", [])
                if not vet:
                    continue_keep = old_meta
            except Exception:
                pass
    suite = re.search(r"suite with change: (.*)", vet)
    demo_with = re.search(r"demo with change: (.*)", vet)
    demo_without = re.search(r"demo on unchanged code: (.*)", vet)
    files = sorted(set(re.findall(r"^\+\+\+ b/(\S+)", open(os.path.join(d, "patch.diff")).read(), re.M)))
    first_lines = [l.strip() for l in notes.splitlines() if l.strip()]
    what = " ".join(first_lines[:3])[:400]
    needs = ""
    for i, l in enumerate(first_lines):
        if re.match(r"(Needed|Needs|What is needed|To manifest|Manifest)", l, re.I):
            needs = " ".join(first_lines[i:i + 3])[:400]
            break
    confirmed = bool(suite and "0 failed" in suite.group(1) and demo_with and ("FAILED" in demo_with.group(1) or "no test result" in demo_with.group(1)) and demo_without and "ok" in demo_without.group(1))
    override = {}
    op = os.path.join(d, "judgement.json")
    if os.path.exists(op):
        override = json.load(open(op))
    meta = {
        "id": name,
        "origin": ("sub-agent given only the text of %s and a private worktree of /repo" % target) + ("; second round: additionally told in general terms what a randomized checker samples, and asked for changes such a checker is likely to miss" if "-r2" in name else "") + ("; third / fourth round: property text and worktree only, asked for three changes of different kinds that need something specific to manifest" if ("-r3" in name or "-r4" in name) else "") + ("; fifth / sixth round: additionally told in general terms what the simulator samples and what it does not, and asked for changes likely to escape it" if ("-r5" in name or "-r6" in name) else ""),
        "breaks": override.get("breaks", [target]),
        "files": files,
        "what": what,
        "needs": needs or "see agent_notes.txt",
        "confirmed": {
            "suite_with_change": suite.group(1) if suite else None,
            "demo_on_unchanged_code": demo_without.group(1) if demo_without else None,
            "demo_with_change": demo_with.group(1) if demo_with else None,
            "all_confirmed": confirmed,
        },
        "ran": "tools/vet_mutant.sh patch.diff demo.rs ; tools/mutant.sh patch.diff (all 18 quick checks against a scratch worktree with the patch applied)",
        "caught_by": caught,
        "target_check_fires": target in caught,
        "notes": override.get("notes", ""),
    }
    json.dump(meta, open(os.path.join(d, "meta.json"), "w"), indent=1)
    rows.append((name, ", ".join(files), what[:140].replace("|", "/"), " ".join(caught) if caught else "-", "yes" if target in caught else "**no**", override.get("notes", "")))

print("| change | file(s) | what it does | quick checks that fire | target fires |")
print("|---|---|---|---|---|")
for r in rows:
    print("| %s | %s | %s | %s | %s |" % r[:5])
print()
print("%d seeded changes, target check fires for %d" % (len(rows), sum(1 for r in rows if r[4] == "yes")))
