#!/bin/bash
# tools/process_mutants.sh [-s SLOT] [-w WORKERS] CXX [mN] -- vet /tmp/wt-CXX/out/mN.* (once) and run all quick checks
# against it; results in /verif/seeded/CXX-mN/{patch.diff,demo.rs,agent_notes.txt,vet.txt,checks.txt}
SLOT=0; W=16; SRC=/tmp/wt-; TAG=""
while getopts "s:w:rt:" o; do case $o in s) SLOT=$OPTARG;; w) W=$OPTARG;; r) SRC=/tmp/r2-; TAG=r2;; t) SRC=/tmp/$OPTARG-; TAG=$OPTARG;; esac; done; shift $((OPTIND-1))
P="$1"; ONLY="$2"
for d in $SRC$P/out/m*.diff /verif/seeded/$P-${TAG}m*/patch.diff; do
  [ -f "$d" ] || continue
  case "$d" in /tmp/*) n=$TAG$(basename "$d" .diff) ;; *) n=$(basename "$(dirname "$d")" | sed "s/^$P-//") ;; esac
  [ -n "$ONLY" ] && [ "$n" != "$ONLY" ] && continue
  S=/verif/seeded/$P-$n
  mkdir -p "$S"
  if [ ! -f "$S/patch.diff" ]; then
    b=${n#$TAG}
    cp "$d" "$S/patch.diff"; cp "$SRC$P/out/${b}_demo.rs" "$S/demo.rs" 2>/dev/null; cp "$SRC$P/out/$b.txt" "$S/agent_notes.txt" 2>/dev/null
  fi
  grep -q "CAUGHT-BY" "$S/checks.txt" 2>/dev/null && continue
  if ! grep -q "demo with change" "$S/vet.txt" 2>/dev/null; then
    MODE=""; if ! grep -q "i_tree::" "$S/demo.rs" 2>/dev/null; then MODE=inline; fi
    CARGO_TARGET_DIR=/tmp/vet-target-$SLOT /verif/tools/vet_mutant.sh "$S/patch.diff" "$S/demo.rs" $MODE > "$S/vet.txt" 2>&1
  fi
  /verif/tools/mutant.sh -s $SLOT -w $W "$S/patch.diff" > "$S/checks.txt" 2>&1
  echo "$P-$n: $(grep -E 'suite with change' "$S/vet.txt") | $(grep -E 'demo with change' "$S/vet.txt" | cut -c1-60) | $(grep CAUGHT-BY "$S/checks.txt")"
done
