#!/bin/bash
# tools/run_sweep_tail.sh -- helper for a running sweep: two more slots (4, 5) work through the
# property groups from the END of the list; process_mutants.sh skips whatever is already done.
cd /verif || exit 2
R2="C18 C16 C12 C11 C10 C09 C07 C06 C04 C03 C02 C01"
R1="C20 C19 C18 C17 C16 C13 C12 C11 C10 C09 C08 C07 C06 C05 C04 C03 C02 C01"
( for p in $R2; do tools/process_mutants.sh -r -s 4 -w 5 $p; done; for p in $R1; do tools/process_mutants.sh -s 4 -w 5 $p; done ) > /tmp/sweep_slot4.log 2>&1 &
( for p in $R1; do tools/process_mutants.sh -s 5 -w 5 $p; done; for p in $R2; do tools/process_mutants.sh -r -s 5 -w 5 $p; done ) > /tmp/sweep_slot5.log 2>&1 &
echo "tail helpers started on slots 4 and 5"
