#!/usr/bin/env python3
"""Regenerate the seeded-change table of DESIGN.md section 8.4 from seeded/*/meta.json
(run tools/seeded_meta.py first)."""
import json, os, re
root = '/verif/seeded'
rows = []
for name in sorted(os.listdir(root)):
    mp = os.path.join(root, name, 'meta.json')
    if not os.path.exists(mp):
        continue
    m = json.load(open(mp))
    if name.startswith('own-'):
        rows.append((name, (m.get('what') or m.get('needs', ''))[:170].replace('|', '/'), ' '.join(m.get('caught_by', [])), 'yes'))
        continue
    np_ = os.path.join(root, name, 'agent_notes.txt')
    notes = open(np_).read() if os.path.exists(np_) else ''
    txt = ' '.join(l.strip() for l in notes.splitlines() if l.strip())
    txt = re.sub(r'^(MUTANT|Mutant|mutant|m)\s*m?\d\s*[-:(=]*\s*', '', txt).replace('|', '/')
    target = ' '.join(m['breaks'])
    fires = 'yes' if any(b in m['caught_by'] for b in m['breaks']) else '**no**'
    rows.append((name, ', '.join(m['files']) + ': ' + txt[:170], ' '.join(m['caught_by']) or '-', fires + ('' if m['breaks'] == [name[:3]] else ' (' + target + ')')))
out = ["<!-- TABLE-BEGIN -->", "| change | what it does (agent's words, abridged) | quick checks that fire | target fires |", "|---|---|---|---|"]
for r in rows:
    out.append("| %s | %s | %s | %s |" % r)
out.append("<!-- TABLE-END -->")
n = len([r for r in rows if not r[0].startswith('own-')])
ok = len([r for r in rows if not r[0].startswith('own-') and r[3].startswith('yes')])
s = open('/verif/DESIGN.md').read()
if '<!-- TABLE-BEGIN -->' in s:
    a = s.index('<!-- TABLE-BEGIN -->'); b = s.index('<!-- TABLE-END -->') + len('<!-- TABLE-END -->')
else:
    a = s.index("| change | what it does (agent's words, abridged)")
    b = s.index("Collateral firings were examined one by one")
    out.append("")
    out.append("")
s = s[:a] + '\n'.join(out) + s[b:]
open('/verif/DESIGN.md', 'w').write(s)
print("%d sub-agent changes in the table, target fires for %d; %d own changes" % (n, ok, len(rows) - n))
