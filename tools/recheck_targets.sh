#!/bin/bash
# tools/recheck_targets.sh SLOT NSLOTS  -- re-evaluate every kept seeded change against the check(s)
# of the property it breaks (meta.json "breaks"), with the harness as it is now; result in
# seeded/<id>/recheck.txt. Changes are split over NSLOTS by index.
SLOT=$1; N=$2; cd /verif || exit 2
i=0
for d in seeded/*/; do
  id=$(basename $d); i=$((i+1))
  [ $((i % N)) = $((SLOT % N)) ] || continue
  [ -f $d/patch.diff ] && [ -f $d/meta.json ] || continue
  ids=$(python3 -c "import json;m=json.load(open('$d/meta.json'));print(' '.join(x for x in m.get('breaks',[]) if x.startswith('C') and len(x)==3))")
  [ -z "$ids" ] && continue
  out=$(tools/mutant.sh -s $((20+SLOT)) -w 4 $d/patch.diff $ids 2>&1 | tail -1)
  echo "$(date +%H:%M:%S) $id targets=[$ids] $out" | tee $d/recheck.txt
done
