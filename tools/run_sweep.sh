#!/bin/bash
# tools/run_sweep.sh r1|r2|all  -- (re)evaluate the seeded changes against all quick checks in the
# background, three scratch slots, results in seeded/<id>/checks.txt, progress in /tmp/sweep_slot*.log
WHICH="${1:-all}"
cd /verif || exit 2
R1="C01 C02 C03 C04 C05 C06 C07 C08 C09 C10 C11 C12 C13 C16 C17 C18 C19 C20"
R2="C01 C02 C03 C04 C06 C07 C09 C10 C11 C12 C16 C18"
rm -f /tmp/sweep_slot*.log
run_slot() { # slot, list of "flag:prop"
  local slot=$1; shift
  ( for item in "$@"; do
      flag=${item%%:*}; p=${item##*:}
      if [ "$flag" = r2 ]; then tools/process_mutants.sh -r -s $slot -w 5 $p; else tools/process_mutants.sh -s $slot -w 5 $p; fi
    done > /tmp/sweep_slot$slot.log 2>&1 & )
}
ITEMS=()
[ "$WHICH" = r1 ] || [ "$WHICH" = all ] && for p in $R1; do ITEMS+=("r1:$p"); done
[ "$WHICH" = r2 ] || [ "$WHICH" = all ] && for p in $R2; do ITEMS+=("r2:$p"); done
A=(); B=(); C=(); i=0
for it in "${ITEMS[@]}"; do case $((i % 3)) in 0) A+=("$it");; 1) B+=("$it");; 2) C+=("$it");; esac; i=$((i+1)); done
run_slot 1 "${A[@]}"; run_slot 2 "${B[@]}"; run_slot 3 "${C[@]}"
echo "sweep $WHICH started: ${#ITEMS[@]} property groups on 3 slots"
