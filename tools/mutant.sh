#!/bin/bash
# Sensitivity helper that never touches /repo: the patch is applied to a scratch
# worktree of /repo's HEAD and the simulator is built against that worktree through
# a shadow manifest (same sources as /verif/sim, dependency path and target dir changed).
#   tools/mutant.sh [-s SLOT] [-w WORKERS] <patch.diff> [ID ...]     (default: all claimed properties)
SLOT=0; W=16
while getopts "s:w:" o; do case $o in s) SLOT=$OPTARG;; w) W=$OPTARG;; esac; done; shift $((OPTIND-1))
PATCH="$(readlink -f "$1")"; shift
IDS="$@"
[ -z "$IDS" ] && IDS="C01 C02 C03 C04 C05 C06 C07 C08 C09 C10 C11 C12 C13 C16 C17 C18 C19 C20"
S=/tmp/mut-slot-$SLOT
mkdir -p $S/sim/.cargo $S/root
HEAD=$(git -C /repo rev-parse HEAD)
if [ ! -d $S/repo/.git ] && [ ! -f $S/repo/.git ]; then git -C /repo worktree add --detach $S/repo $HEAD >/dev/null 2>&1 || { echo "cannot create worktree"; exit 2; }; fi
git -C $S/repo checkout -q --detach $HEAD 2>/dev/null; git -C $S/repo checkout -q -- . ; git -C $S/repo clean -fdq -e target
if ! git -C $S/repo apply "$PATCH" 2>/dev/null; then echo "patch does not apply: $PATCH"; exit 2; fi
rsync -a --delete ${MUT_SRC:-/verif/sim}/src/ $S/sim/src/
sed "s#path = \"/repo\"#path = \"$S/repo\"#" /verif/sim/Cargo.toml > $S/sim/Cargo.toml
cp /verif/sim/Cargo.lock $S/sim/Cargo.lock
printf '[net]\noffline = true\n\n[build]\nrustflags = ["--cfg", "ishape_rust_itree_verif"]\ntarget-dir = "%s/target"\n' $S > $S/sim/.cargo/config.toml
cp /verif/known_findings.json $S/root/
( cd $S/sim && CARGO_NET_OFFLINE=true cargo build --release --offline > $S/build.log 2>&1 && CARGO_NET_OFFLINE=true cargo build --profile plain --offline >> $S/build.log 2>&1 ) || { echo "BUILD FAILED"; tail -20 $S/build.log; exit 2; }
CAUGHT=""
for id in $IDS; do
  OUT=$(VERIF_ROOT=$S/root VERIF_WORKERS=$W $S/target/release/itree-sim check --prop "$id" --tier quick 2>&1); RC=$?
  if [ $RC = 0 ]; then
    # same secondary pass as ./check: a fifth of the runs on the plain release build
    OUT=$(VERIF_ROOT=$S/root VERIF_WORKERS=$W $S/target/plain/itree-sim check --prop "$id" --tier quick --runs-div 5 --merge-evidence 2>&1); RC=$?
    [ $RC = 1 ] && OUT="(plain build) $OUT"
  fi
  if [ $RC = 0 ] && [ "$id" = C10 ]; then
    # C10 only: a fortieth of the runs on an unoptimised build
    ( cd $S/sim && CARGO_NET_OFFLINE=true cargo build --offline >> $S/build.log 2>&1 )
    OUT=$(ITREE_SIM_PROFILE=dev VERIF_ROOT=$S/root VERIF_WORKERS=$W $S/target/debug/itree-sim check --prop "$id" --tier quick --runs-div 40 --merge-evidence 2>&1); RC=$?
    [ $RC = 1 ] && OUT="(dev build) $OUT"
  fi
  if [ $RC = 1 ]; then CAUGHT="$CAUGHT $id"; echo "$OUT" | grep -A1 "^VIOLATION" | head -4 | cut -c1-300;
  elif [ $RC != 0 ]; then echo "$id: harness exit $RC"; echo "$OUT" | tail -3 | cut -c1-300; fi
done
git -C $S/repo checkout -q -- .
echo "CAUGHT-BY:$CAUGHT"
