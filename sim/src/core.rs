//! Shared run-time types: world configuration, oracle selection, run context
//! (statistics, trace-mode logging, crash-point plan) and the World trait.

use crate::instr::{guarded, Caught, MonitorReport};
use crate::json::J;
use crate::op::{Failure, Flow, Op, Step};
use crate::rng::Rng;
use std::collections::{BTreeMap, BTreeSet};
use std::io::Write;

// ---- oracle bits -----------------------------------------------------------
pub const O_KPRED: u32 = 1 << 0; // C01 predecessor answers (tree), C13 (list)
pub const O_KGET: u32 = 1 << 1; // C06
pub const O_KEXPORT: u32 = 1 << 2; // C07
pub const O_KEMPTY: u32 = 1 << 3; // one-sided emptiness
pub const O_MON: u32 = 1 << 4; // C20
pub const O_CAP: u32 = 1 << 5; // C19
pub const O_OGET: u32 = 1 << 6; // C04 / C05
pub const O_OFIRST: u32 = 1 << 7; // C08 (query part)
pub const O_OHANDLE: u32 = 1 << 8; // C08 (read / write / delete)
pub const O_ONEIGH: u32 = 1 << 9; // C09
pub const O_OHOLD: u32 = 1 << 10; // C17
pub const O_SQUERY: u32 = 1 << 11; // C03
pub const O_SDROP: u32 = 1 << 12; // C16
pub const O_STRUCT: u32 = 1 << 13; // C02
pub const O_ARENA: u32 = 1 << 14; // C11
pub const O_CRASH: u32 = 1 << 15; // C10: every abnormal outcome is owned
pub const O_TWIN: u32 = 1 << 16; // C12
pub const O_TORN: u32 = 1 << 17; // C18

// ---- collection bits ---------------------------------------------------------
pub const C_TREE: u8 = 1;
pub const C_LIST: u8 = 2;

#[derive(Clone, Copy, Debug, PartialEq, Eq)]
pub enum WorldKind {
    Key,
    Map,
    Set,
    Seg,
}

impl WorldKind {
    pub fn name(&self) -> &'static str {
        match self {
            WorldKind::Key => "key",
            WorldKind::Map => "map",
            WorldKind::Set => "set",
            WorldKind::Seg => "seg",
        }
    }
    pub fn parse(s: &str) -> Option<WorldKind> {
        Some(match s {
            "key" => WorldKind::Key,
            "map" => WorldKind::Map,
            "set" => WorldKind::Set,
            "seg" => WorldKind::Seg,
            _ => return None,
        })
    }
}

/// Everything needed to re-create the world of a run (part of the replay file).
#[derive(Clone, Debug)]
pub struct Cfg {
    pub prop: String,
    pub world: WorldKind,
    pub colls: u8,
    pub oracles: u32,
    /// capacity hint given to the constructors
    pub cap: usize,
    /// key window [key_lo, key_lo + universe) used by sweeps
    pub key_lo: i32,
    pub universe: i32,
    /// segment domain: coordinate type (0 = i32, 1 = i16, 2 = u8, 3 = i64), lo, hi
    pub seg_ty: u8,
    pub seg_lo: i64,
    pub seg_hi: i64,
    /// starting value of the simulated clock
    pub t0: i32,
    /// ordered map / set: 0 = full observation sweep after every mutation, 1 = sweeps only where
    /// the history contains an explicit OSweep step (lookups between mutations are then as rare
    /// as the history makes them, so state cached by lookups is not refreshed behind its back)
    pub sweep_mode: u8,
    /// expiring-key world: 0 = KeyExp*<SimKey, i32, i64> (32-bit clock), 1 = the narrow
    /// instantiation KeyExp*<NKey, u8, u32> (64-bit key field, 8-bit clock whose maximum 255 is
    /// within reach of every run, 32-bit values)
    pub key_ty: u8,
}

impl Cfg {
    pub fn to_json(&self) -> J {
        J::obj()
            .set("prop", J::s(&self.prop))
            .set("world", J::s(self.world.name()))
            .set("colls", J::i(self.colls as i64))
            .set("oracles", J::i(self.oracles as i64))
            .set("cap", J::i(self.cap as i64))
            .set("key_lo", J::i(self.key_lo))
            .set("universe", J::i(self.universe))
            .set("seg_ty", J::i(self.seg_ty as i64))
            .set("seg_lo", J::Int(self.seg_lo))
            .set("seg_hi", J::Int(self.seg_hi))
            .set("t0", J::i(self.t0))
            .set("sweep_mode", J::i(self.sweep_mode as i64))
            .set("key_ty", J::i(self.key_ty as i64))
    }
    pub fn from_json(j: &J) -> Result<Cfg, String> {
        let g = |k: &str| j.get(k).and_then(|v| v.as_i64()).ok_or(format!("cfg.{} missing", k));
        Ok(Cfg {
            prop: j.get("prop").and_then(|v| v.as_str()).ok_or("cfg.prop missing")?.to_string(),
            world: WorldKind::parse(j.get("world").and_then(|v| v.as_str()).ok_or("cfg.world missing")?).ok_or("bad cfg.world")?,
            colls: g("colls")? as u8,
            oracles: g("oracles")? as u32,
            cap: g("cap")? as usize,
            key_lo: g("key_lo")? as i32,
            universe: g("universe")? as i32,
            seg_ty: g("seg_ty")? as u8,
            seg_lo: g("seg_lo")?,
            seg_hi: g("seg_hi")?,
            t0: g("t0")? as i32,
            sweep_mode: j.get("sweep_mode").and_then(|v| v.as_i64()).unwrap_or(0) as u8,
            key_ty: j.get("key_ty").and_then(|v| v.as_i64()).unwrap_or(0) as u8,
        })
    }
    #[inline]
    pub fn has(&self, o: u32) -> bool {
        self.oracles & o != 0
    }
}

/// Why a run stopped before its last step.
pub enum Stop {
    Fail(Failure),
    /// an operation this property does not observe crashed: the run says nothing about the property
    Inconclusive(String),
}

#[derive(Default, Clone)]
pub struct Stats {
    pub counters: BTreeMap<&'static str, u64>,
    pub oracle_evals: u64,
    pub ops: u64,
    pub ticks: u64,
    pub injections_fired: u64,
    /// distinct canonical (size, shape+colour) trees seen
    pub shapes: BTreeSet<(u32, u64)>,
}

thread_local! {
    static KEY2: std::cell::RefCell<BTreeMap<(&'static str, &'static str), &'static str>> = const { std::cell::RefCell::new(BTreeMap::new()) };
}

/// "<collection>.<counter>" as a static string (each combination is created once).
pub fn key2(a: &'static str, b: &'static str) -> &'static str {
    KEY2.with(|m| {
        let mut m = m.borrow_mut();
        *m.entry((a, b)).or_insert_with(|| Box::leak(format!("{}.{}", a, b).into_boxed_str()))
    })
}

impl Stats {
    #[inline]
    pub fn bump(&mut self, k: &'static str) {
        *self.counters.entry(k).or_insert(0) += 1;
    }
    #[inline]
    pub fn add(&mut self, k: &'static str, n: u64) {
        *self.counters.entry(k).or_insert(0) += n;
    }
    pub fn merge(&mut self, o: &Stats) {
        for (k, v) in &o.counters {
            *self.counters.entry(k).or_insert(0) += v;
        }
        self.oracle_evals += o.oracle_evals;
        self.ops += o.ops;
        self.ticks += o.ticks;
        self.injections_fired += o.injections_fired;
        for s in &o.shapes {
            self.shapes.insert(*s);
        }
    }
}

pub struct RunCtx {
    pub stats: Stats,
    /// trace mode: every call into iTree is announced (and flushed) before it is made
    pub trace_log: Option<std::fs::File>,
    pub op_index: usize,
    /// crash point of the current step (callback invocation index)
    pub panic_at: Option<u32>,
    /// callbacks counted in the primary call of each executed step (fault-free dry run)
    pub cb_counts: Vec<u32>,
    /// rolling hash over operations and answers (determinism self-check)
    pub hash: u64,
    pub collect_shapes: bool,
}

impl RunCtx {
    pub fn new() -> RunCtx {
        RunCtx { stats: Stats::default(), trace_log: None, op_index: 0, panic_at: None, cb_counts: Vec::new(), hash: 0x1234_5678_9abc_def0, collect_shapes: true }
    }
    #[inline]
    pub fn mix(&mut self, x: u64) {
        self.hash = (self.hash ^ x).wrapping_mul(0x100000001b3).rotate_left(29);
    }
    #[inline]
    pub fn announce(&mut self, coll: &str, call: &str, owned: bool) {
        if let Some(f) = self.trace_log.as_mut() {
            let _ = writeln!(f, "call {} {} {} {}", self.op_index, coll, call, owned as u8);
            let _ = f.flush();
        }
    }
}

/// Outcome of one guarded call, after crash-ownership has been applied.
pub enum Called<T> {
    Ok(T),
    Injected,
}

/// Make one call into iTree: announce (trace mode), arm instrumentation, catch
/// unwinding, apply the crash-ownership rule.
#[allow(clippy::too_many_arguments)]
pub fn call<T>(
    ctx: &mut RunCtx,
    cfg: &Cfg,
    coll: &'static str,
    callname: &'static str,
    opkind: &'static str,
    owned: bool,
    panic_at: Option<u32>,
    mon: Option<(i32, u32)>,
    f: impl FnOnce() -> T,
) -> Result<(Called<T>, u32), Stop> {
    let owned = owned || cfg.has(O_CRASH);
    ctx.announce(coll, callname, owned);
    let (r, n, rep) = guarded(panic_at, mon, f);
    if let Some(MonitorReport { kind, key, exp, id }) = rep {
        if cfg.has(O_MON) {
            ctx.stats.oracle_evals += 1;
            return Err(Stop::Fail(Failure {
                oracle: "monitor",
                coll,
                opkind,
                class: "mismatch",
                tag: format!("{} saw {} key in {}", kind, if id == 0 { "an uninitialised" } else { "an expired" }, callname),
                detail: format!(
                    "during {} at time {} the caller's {} was invoked on stored key {} (expiration {}, insertion id {}), which is not live",
                    callname,
                    mon.map(|m| m.0).unwrap_or(0),
                    kind,
                    key,
                    exp,
                    id
                ),
            }));
        }
    }
    if (mon.is_some() && cfg.has(O_MON)) || cfg.has(O_CRASH) {
        // C10: the process outcome of every call is the oracle
        ctx.stats.oracle_evals += 1;
    }
    if let Some((k, id)) = crate::instr::take_double_drop() {
        // a bitwise duplicate of a stored value was dropped a second time
        if cfg.has(O_OGET | O_CRASH) {
            ctx.stats.oracle_evals += 1;
            return Err(Stop::Fail(Failure {
                oracle: "value",
                coll,
                opkind,
                class: "invariant",
                tag: "stored value dropped twice".into(),
                detail: format!("during {} a value inserted for key {} (identity {}) was dropped a second time: the collection duplicated it bitwise instead of cloning it (double free for heap values)", callname, k, id),
            }));
        }
    }
    match r {
        Caught::Ok(v) => Ok((Called::Ok(v), n)),
        Caught::Injected => {
            ctx.stats.injections_fired += 1;
            Ok((Called::Injected, n))
        }
        Caught::Panic(msg) => {
            if owned {
                Err(Stop::Fail(Failure { oracle: "crash", coll, opkind, class: "panic", tag: format!("{}: {}", callname, strip_numbers(&msg)), detail: format!("{} panicked: {}", callname, msg) }))
            } else {
                Err(Stop::Inconclusive(format!("{}::{} panicked: {}", coll, callname, msg)))
            }
        }
    }
}

/// Remove run-specific numbers from a message so that it can serve as a stable tag.
pub fn strip_numbers(s: &str) -> String {
    let mut out = String::new();
    let mut prev_digit = false;
    for c in s.chars() {
        if c.is_ascii_digit() {
            if !prev_digit {
                out.push('#');
            }
            prev_digit = true;
        } else {
            prev_digit = false;
            out.push(c);
        }
    }
    out
}

pub trait World {
    /// Contract sanitiser: is `op` within the preconditions, judged by the model alone?
    fn legal(&self, op: &Op) -> bool;
    /// Execute the step on the real collection(s), evaluate the enabled oracles, update the model.
    fn apply(&mut self, step: &Step, ctx: &mut RunCtx) -> Result<Flow, Stop>;
    /// Scheduler + workload generator: the next operation (always legal).
    fn gen(&mut self, rng: &mut Rng, ctx: &mut RunCtx, remaining: usize) -> Op;
    /// Simulated time now (for evidence).
    fn now(&self) -> i64;
}

pub fn mismatch(oracle: &'static str, coll: &'static str, opkind: &'static str, tag: &str, detail: String) -> Stop {
    Stop::Fail(Failure { oracle, coll, opkind, class: "mismatch", tag: tag.to_string(), detail })
}

pub fn invariant(oracle: &'static str, coll: &'static str, opkind: &'static str, tag: &str, detail: String) -> Stop {
    Stop::Fail(Failure { oracle, coll, opkind, class: "invariant", tag: tag.to_string(), detail })
}
