//! Process isolation: executing a trace (or re-generating a run) in a child
//! process in trace mode, and turning the child's fate into a classified
//! outcome. A child that dies is identified through its flushed trace log.

use crate::core::Cfg;
use crate::json;
use crate::op::{Failure, Step};
use crate::runner::Trace;
use std::io::Read;
use std::process::{Command, Stdio};
use std::time::{Duration, Instant};

pub fn verif_root() -> String {
    std::env::var("VERIF_ROOT").unwrap_or_else(|_| "/verif".to_string())
}

pub fn work_dir() -> String {
    let d = format!("{}/work", verif_root());
    let _ = std::fs::create_dir_all(&d);
    d
}

#[derive(Debug, Clone)]
pub enum ChildOutcome {
    Pass,
    Inconclusive(String),
    /// classified failure, the executed steps up to and including the failing one
    Fail(Failure, Vec<Step>),
    /// the harness itself misbehaved
    HarnessError(String),
}

pub struct LogInfo {
    /// the child was inside a C18 control run (no fault injected) when the log ends
    pub in_control: bool,
    pub cfg: Option<Cfg>,
    pub steps: Vec<Step>,
    pub last_call: Option<(usize, String, String, bool)>,
}

pub fn read_log(path: &str) -> LogInfo {
    let mut info = LogInfo { in_control: false, cfg: None, steps: Vec::new(), last_call: None };
    let mut control_pending = false;
    let s = std::fs::read_to_string(path).unwrap_or_default();
    for line in s.lines() {
        if line == "control-run" {
            control_pending = true;
        } else if let Some(rest) = line.strip_prefix("cfg ") {
            if let Ok(j) = json::parse(rest) {
                info.cfg = Cfg::from_json(&j).ok();
            }
            info.steps.clear();
            info.last_call = None;
            info.in_control = control_pending;
            control_pending = false;
        } else if let Some(rest) = line.strip_prefix("step ") {
            if let Some(pos) = rest.find(' ') {
                if let Ok(st) = Step::parse(&rest[pos + 1..]) {
                    info.steps.push(st);
                }
            }
        } else if let Some(rest) = line.strip_prefix("call ") {
            let parts: Vec<&str> = rest.splitn(3, ' ').collect();
            if parts.len() == 3 {
                // "<idx> <coll> <callname...> <owned>"
                let idx = parts[0].parse::<usize>().unwrap_or(0);
                let coll = parts[1].to_string();
                let tail = parts[2];
                if let Some(p) = tail.rfind(' ') {
                    let owned = &tail[p + 1..] == "1";
                    info.last_call = Some((idx, coll, tail[..p].to_string(), owned));
                }
            }
        }
    }
    info
}

fn leak(s: String) -> &'static str {
    Box::leak(s.into_boxed_str())
}

fn static_coll(name: &str) -> &'static str {
    match name {
        "KeyExpTree" => "KeyExpTree",
        "KeyExpList" => "KeyExpList",
        "MapTree" => "MapTree",
        "MapList" => "MapList",
        "SetTree" => "SetTree",
        "SetList" => "SetList",
        "SegExpTree" => "SegExpTree",
        other => leak(other.to_string()),
    }
}

/// Run `args` as a child of the current executable with a wall-clock limit.
/// Returns (exit code, signal, stdout, stderr tail, timed out).
pub fn run_child(args: &[String], limit: Duration) -> Result<(Option<i32>, Option<i32>, String, String, bool), String> {
    let exe = std::env::current_exe().map_err(|e| e.to_string())?;
    let mut child = Command::new(exe).args(args).stdin(Stdio::null()).stdout(Stdio::piped()).stderr(Stdio::piped()).spawn().map_err(|e| e.to_string())?;
    let mut out = child.stdout.take().unwrap();
    let mut err = child.stderr.take().unwrap();
    let t_out = std::thread::spawn(move || {
        let mut s = String::new();
        let _ = out.read_to_string(&mut s);
        s
    });
    let t_err = std::thread::spawn(move || {
        let mut s = Vec::new();
        let _ = err.read_to_end(&mut s);
        String::from_utf8_lossy(&s).to_string()
    });
    let start = Instant::now();
    let mut timed_out = false;
    let status = loop {
        match child.try_wait().map_err(|e| e.to_string())? {
            Some(st) => break st,
            None => {
                if start.elapsed() > limit {
                    timed_out = true;
                    let _ = child.kill();
                    break child.wait().map_err(|e| e.to_string())?;
                }
                std::thread::sleep(Duration::from_micros(300));
            }
        }
    };
    let stdout = t_out.join().unwrap_or_default();
    let stderr = t_err.join().unwrap_or_default();
    use std::os::unix::process::ExitStatusExt;
    let tail: String = {
        let lines: Vec<&str> = stderr.lines().collect();
        let n = lines.len();
        lines[n.saturating_sub(6)..].join(" | ")
    };
    Ok((status.code(), status.signal(), stdout, tail, timed_out))
}

/// Interpret a finished child that was executing a trace in trace mode.
pub fn classify_child(code: Option<i32>, signal: Option<i32>, stdout: &str, stderr_tail: &str, timed_out: bool, log_path: &str) -> ChildOutcome {
    if code == Some(0) {
        for line in stdout.lines() {
            if line == "OUTCOME PASS" {
                return ChildOutcome::Pass;
            }
            if let Some(m) = line.strip_prefix("OUTCOME INCONCLUSIVE ") {
                return ChildOutcome::Inconclusive(m.to_string());
            }
            if let Some(js) = line.strip_prefix("OUTCOME FAIL ") {
                return match json::parse(js) {
                    Ok(j) => {
                        let g = |k: &str| j.get(k).and_then(|v| v.as_str()).unwrap_or("").to_string();
                        let steps: Vec<Step> = j.get("steps").and_then(|s| s.as_arr()).map(|a| a.iter().filter_map(|x| x.as_str().and_then(|t| Step::parse(t).ok())).collect()).unwrap_or_default();
                        ChildOutcome::Fail(
                            Failure { oracle: leak(g("oracle")), coll: static_coll(&g("coll")), opkind: leak(g("opkind")), class: leak(g("class")), tag: g("tag"), detail: g("detail") },
                            steps,
                        )
                    }
                    Err(e) => ChildOutcome::HarnessError(format!("bad OUTCOME line: {}", e)),
                };
            }
        }
        return ChildOutcome::HarnessError("child exited 0 without an OUTCOME line".into());
    }
    if code == Some(2) {
        return ChildOutcome::HarnessError(format!("child reported a harness error: {}", stderr_tail));
    }
    if code == Some(101) {
        return ChildOutcome::HarnessError(format!("the harness itself panicked: {}", stderr_tail));
    }
    // abnormal end: identify the operation from the flushed log
    let info = read_log(log_path);
    let class: &'static str = if timed_out || code == Some(97) {
        "hang"
    } else if signal == Some(6) {
        "abort"
    } else if signal.is_some() {
        "signal"
    } else {
        "abort"
    };
    let (coll, callname, owned) = match info.last_call.as_ref() {
        Some((_, c, n, o)) => (c.clone(), n.clone(), *o),
        None => return ChildOutcome::HarnessError(format!("child died (code {:?}, signal {:?}) before any call into iTree: {}", code, signal, stderr_tail)),
    };
    let opkind = info.steps.last().map(|s| s.op.kind()).unwrap_or("new");
    if info.in_control {
        return ChildOutcome::Inconclusive(format!("{}::{} died ({}) in a control run without any injected fault", coll, callname, class));
    }
    if !owned {
        return ChildOutcome::Inconclusive(format!("{}::{} died ({}), not observed by this property", coll, callname, class));
    }
    let what = if stderr_tail.contains("SIM-ALLOC-REFUSED") {
        "allocation request over the simulated memory limit".to_string()
    } else if stderr_tail.contains("unsafe precondition") {
        "unsafe precondition violated (out-of-bounds unchecked access)".to_string()
    } else if let Some(sig) = signal {
        format!("signal {}", sig)
    } else {
        format!("exit code {:?}", code)
    };
    ChildOutcome::Fail(
        Failure {
            oracle: "crash",
            coll: static_coll(&coll),
            opkind,
            class,
            tag: callname.clone(),
            detail: format!("process {} inside {}::{} during step `{}`: {} [{}]", if class == "hang" { "hung" } else { "died" }, coll, callname, info.steps.last().map(|s| s.to_text()).unwrap_or_default(), what, stderr_tail),
        },
        info.steps,
    )
}

static CAND_SEQ: std::sync::atomic::AtomicU64 = std::sync::atomic::AtomicU64::new(0);

/// Execute a trace in a fresh child process (trace mode) and classify the result.
pub fn exec_trace_in_child(trace: &Trace, limit: Duration) -> ChildOutcome {
    exec_trace_in_child_wd(trace, limit, 40)
}

/// As above with an explicit per-operation watchdog (seconds) in the child.
pub fn exec_trace_in_child_wd(trace: &Trace, limit: Duration, watchdog_s: u32) -> ChildOutcome {
    let n = CAND_SEQ.fetch_add(1, std::sync::atomic::Ordering::Relaxed);
    let base = format!("{}/cand-{}-{}", work_dir(), std::process::id(), n);
    let file = format!("{}.json", base);
    let log = format!("{}.log", base);
    if let Err(e) = std::fs::write(&file, trace.to_json().to_string()) {
        return ChildOutcome::HarnessError(format!("cannot write {}: {}", file, e));
    }
    let r = run_child(&["exec".into(), "--file".into(), file.clone(), "--log".into(), log.clone(), "--watchdog".into(), watchdog_s.to_string()], limit);
    let out = match r {
        Ok((code, sig, stdout, errtail, timed_out)) => classify_child(code, sig, &stdout, &errtail, timed_out, &log),
        Err(e) => ChildOutcome::HarnessError(e),
    };
    let _ = std::fs::remove_file(&file);
    let _ = std::fs::remove_file(&log);
    out
}
