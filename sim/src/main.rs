//! itree-sim — deterministic simulation with fault injection for iShape-Rust/iTree.
//!
//!   itree-sim check --prop C01 --tier quick        run one property check (parent: worker pool, shrink, replay, evidence)
//!   itree-sim replay <file>                        re-execute a replay file in a fresh process
//!   itree-sim selfcheck determinism                same seeds, different processes / worker counts => same traces
//!   (internal) worker / trace-run / exec

mod check;
mod child;
mod core;
mod instr;
mod json;
mod op;
mod props;
mod rng;
mod runner;
mod shrink;
mod snap;
mod world_key;
mod world_ord;
mod world_seg;

#[global_allocator]
static GLOBAL: instr::SimAlloc = instr::SimAlloc;

use std::collections::BTreeMap;

pub struct Args {
    pub pos: Vec<String>,
    pub kv: BTreeMap<String, String>,
}

fn parse_args() -> Args {
    let mut pos = Vec::new();
    let mut kv = BTreeMap::new();
    let mut it = std::env::args().skip(1).peekable();
    while let Some(a) = it.next() {
        if let Some(k) = a.strip_prefix("--") {
            let v = match it.peek() {
                Some(n) if !n.starts_with("--") => it.next().unwrap(),
                _ => "1".to_string(),
            };
            kv.insert(k.to_string(), v);
        } else {
            pos.push(a);
        }
    }
    Args { pos, kv }
}

impl Args {
    pub fn get(&self, k: &str) -> Option<&str> {
        self.kv.get(k).map(|s| s.as_str())
    }
    pub fn num(&self, k: &str, d: u64) -> u64 {
        self.get(k).and_then(|v| v.parse().ok()).unwrap_or(d)
    }
}

fn main() {
    // the extra pass on the unoptimised build runs everything on a thread with Rust's default
    // thread stack of 2 MiB (what a test or a spawned worker thread of a user has), not on the
    // 8 MiB main thread
    if std::env::var("ITREE_SIM_PROFILE").ok().as_deref() == Some("dev") {
        let h = std::thread::Builder::new().stack_size(2 * 1024 * 1024).spawn(real_main).expect("spawn");
        let _ = h.join();
        std::process::exit(101);
    }
    real_main();
}

fn real_main() {
    let args = parse_args();
    let cmd = args.pos.first().cloned().unwrap_or_default();
    let code = match cmd.as_str() {
        "check" => check::cmd_check(&args),
        "worker" => check::cmd_worker(&args),
        "trace-run" => check::cmd_trace_run(&args),
        "exec" => check::cmd_exec(&args),
        "dump-trace" => check::cmd_dump_trace(&args),
        "replay" => check::cmd_replay(&args),
        "selfcheck" => check::cmd_selfcheck(&args),
        "list" => {
            for p in props::PROPS {
                println!("{} {} ({})", p.id, p.title, p.level);
            }
            0
        }
        _ => {
            eprintln!("usage: itree-sim check --prop <ID> --tier quick|thorough | replay <file> | selfcheck determinism | list");
            2
        }
    };
    std::process::exit(code);
}
