//! The check driver: worker pool of child processes, crash triage, shrinking,
//! replay verification, known findings, evidence.

use crate::child::{classify_child, exec_trace_in_child, run_child, verif_root, work_dir, ChildOutcome};
use crate::core::{RunCtx, Stats};
use crate::instr::{install_panic_hook, BUSY, HEARTBEAT};
use crate::json::{self, J};
use crate::op::{Failure, Step};
use crate::props;
use crate::runner::{self, Outcome, Trace};
use crate::shrink;
use crate::Args;
use std::collections::{BTreeMap, BTreeSet};
use std::io::{BufRead, BufReader, Write};
use std::process::{Command, Stdio};
use std::sync::atomic::Ordering as AO;
use std::sync::{Arc, Mutex};
use std::time::{Duration, Instant};

fn start_watchdog(limit_s: u32) {
    std::thread::spawn(move || {
        let mut last = 0u64;
        let mut same = 0u32;
        loop {
            std::thread::sleep(Duration::from_millis(1000));
            let h = HEARTBEAT.load(AO::Relaxed);
            if BUSY.load(AO::Relaxed) && h == last {
                same += 1;
            } else {
                same = 0;
            }
            last = h;
            if same >= limit_s {
                eprintln!("WATCHDOG: one operation has been running for more than {} s", limit_s);
                std::process::exit(97);
            }
        }
    });
}

fn failure_json(f: &Failure) -> J {
    J::obj().set("oracle", J::s(f.oracle)).set("coll", J::s(f.coll)).set("opkind", J::s(f.opkind)).set("class", J::s(f.class)).set("tag", J::s(&f.tag)).set("detail", J::s(&f.detail)).set("sig", J::s(&f.sig()))
}

fn failure_from_json(j: &J) -> Failure {
    let g = |k: &str| j.get(k).and_then(|v| v.as_str()).unwrap_or("").to_string();
    let leak = |s: String| -> &'static str { Box::leak(s.into_boxed_str()) };
    Failure { oracle: leak(g("oracle")), coll: leak(g("coll")), opkind: leak(g("opkind")), class: leak(g("class")), tag: g("tag"), detail: g("detail") }
}

fn stats_json(s: &Stats) -> J {
    let mut c = J::obj();
    for (k, v) in &s.counters {
        c.put(k, J::u(*v));
    }
    let mut shapes: BTreeMap<u32, u64> = BTreeMap::new();
    for (n, _) in &s.shapes {
        *shapes.entry(*n).or_insert(0) += 1;
    }
    J::obj()
        .set("counters", c)
        .set("oracle_evals", J::u(s.oracle_evals))
        .set("ops", J::u(s.ops))
        .set("ticks", J::u(s.ticks))
        .set("injections_fired", J::u(s.injections_fired))
        .set("shapes", J::Arr(s.shapes.iter().map(|(n, h)| J::Arr(vec![J::u(*n as u64), J::s(&format!("{:016x}", h))])).collect()))
}

// ---------------------------------------------------------------------------
// worker

pub fn cmd_worker(args: &Args) -> i32 {
    let prop = args.get("prop").unwrap_or("").to_string();
    if props::find(&prop).is_none() {
        eprintln!("unknown property {}", prop);
        return 2;
    }
    let thorough = args.get("tier") == Some("thorough");
    let seed = args.num("seed", 1);
    let workers = args.num("workers", 1).max(1);
    let windex = args.num("index", 0);
    let runs = args.num("runs", 1);
    let start = args.num("start", 0);
    let hashes = args.get("hashes").is_some();
    let hash_file = args.get("hashfile").map(|s| s.to_string());
    runner::apply_tier_limits(args.get("tier"));
    install_panic_hook(false);
    // first-level hang detection: a worker that stalls is re-examined alone with a longer limit
    start_watchdog(args.num("watchdog", 12) as u32);
    let stdout = std::io::stdout();
    let mut out = stdout.lock();
    let mut ctx = RunCtx::new();
    let mut evaluations = 0u64;
    let mut nontrivial_hashes: Vec<u64> = Vec::new();
    let mut inconclusive = 0u64;
    let mut inconclusive_msgs: Vec<String> = Vec::new();
    let mut runs_done = 0u64;
    let mut fail_sigs: BTreeSet<String> = BTreeSet::new();
    let mut samples = 0;
    let mut steps_total = 0u64;
    let mut i = windex;
    while i < runs {
        if i < start {
            i += workers;
            continue;
        }
        let _ = writeln!(out, "R {}", i);
        let _ = out.flush();
        ctx.hash = 0x1234_5678_9abc_def0;
        let evals_before = ctx.stats.oracle_evals;
        let rep = runner::run_property(&prop, seed, i, thorough, &mut ctx);
        runs_done += 1;
        evaluations += rep.evaluations;
        steps_total += rep.trace.steps.len() as u64;
        let nontrivial = rep.trace.steps.len() >= 3 && ctx.stats.oracle_evals > evals_before;
        if nontrivial {
            nontrivial_hashes.push(ctx.hash);
        }
        if hashes {
            let _ = writeln!(out, "D {} {:016x}", i, ctx.hash);
        }
        match rep.outcome {
            Outcome::Pass => {}
            Outcome::Inconclusive(m) => {
                inconclusive += 1;
                if inconclusive_msgs.len() < 3 {
                    inconclusive_msgs.push(format!("run {}: {}", i, m));
                }
            }
            Outcome::Fail(f, at) => {
                if fail_sigs.len() < 6 && fail_sigs.insert(f.sig()) {
                    let mut t = rep.trace.clone();
                    t.steps.truncate(at + 1);
                    let j = J::obj().set("run", J::u(i)).set("failure", failure_json(&f)).set("trace", t.to_json());
                    let _ = writeln!(out, "F {}", j.to_string());
                    let _ = out.flush();
                }
                ctx.stats.bump("runs.failed");
            }
        }
        if samples < 2 && windex == 0 && rep.trace.steps.len() >= 4 {
            samples += 1;
            let mut t = rep.trace.clone();
            t.steps.truncate(30);
            let _ = writeln!(out, "X {}", J::obj().set("run", J::u(i)).set("trace", t.to_json()).to_string());
        }
        i += workers;
    }
    if let Some(hf) = hash_file {
        let mut bytes = Vec::with_capacity(nontrivial_hashes.len() * 8);
        for h in &nontrivial_hashes {
            bytes.extend_from_slice(&h.to_le_bytes());
        }
        // append: a restarted worker continues the same file
        if let Ok(mut f) = std::fs::OpenOptions::new().create(true).append(true).open(&hf) {
            let _ = f.write_all(&bytes);
        }
    }
    let s = stats_json(&ctx.stats)
        .set("runs", J::u(runs_done))
        .set("evaluations", J::u(evaluations))
        .set("steps", J::u(steps_total))
        .set("inconclusive", J::u(inconclusive))
        .set("inconclusive_msgs", J::strs(inconclusive_msgs))
        .set("callbacks", J::u(crate::instr::total_callbacks()))
        .set("monitor_calls", J::u(crate::instr::monitor_calls()));
    let _ = writeln!(out, "S {}", s.to_string());
    let _ = out.flush();
    0
}

// ---------------------------------------------------------------------------
// trace-mode children

fn open_log(path: &str) -> Option<std::fs::File> {
    std::fs::File::create(path).ok()
}

fn print_outcome(out: &Outcome, executed: &[Step]) {
    match out {
        Outcome::Pass => println!("OUTCOME PASS"),
        Outcome::Inconclusive(m) => println!("OUTCOME INCONCLUSIVE {}", m.replace('\n', " ")),
        Outcome::Fail(f, at) => {
            let steps: Vec<String> = executed.iter().take(at + 1).map(|s| s.to_text()).collect();
            println!("OUTCOME FAIL {}", failure_json(f).set("steps", J::strs(steps)).to_string());
        }
    }
}

/// Re-generate one run in trace mode (used after a worker died in that run).
pub fn cmd_trace_run(args: &Args) -> i32 {
    let prop = args.get("prop").unwrap_or("").to_string();
    let thorough = args.get("tier") == Some("thorough");
    let seed = args.num("seed", 1);
    let run = args.num("run", 0);
    let log = args.get("log").unwrap_or("/dev/null").to_string();
    install_panic_hook(false);
    start_watchdog(args.num("watchdog", 40) as u32);
    let mut ctx = RunCtx::new();
    ctx.trace_log = open_log(&log);
    let rep = runner::run_property(&prop, seed, run, thorough, &mut ctx);
    print_outcome(&rep.outcome, &rep.trace.steps);
    0
}

/// Write the recorded trace of one generated run as a replay file (used for
/// failures that only an external engine - Miri - can see).
pub fn cmd_dump_trace(args: &Args) -> i32 {
    let prop = args.get("prop").unwrap_or("").to_string();
    let thorough = args.get("tier") == Some("thorough");
    let seed = args.num("seed", 1);
    let run = args.num("run", 0);
    let out = match args.get("out") {
        Some(o) => o.to_string(),
        None => return 2,
    };
    runner::apply_tier_limits(args.get("tier"));
    install_panic_hook(false);
    let mut ctx = RunCtx::new();
    let rep = runner::run_property(&prop, seed, run, thorough, &mut ctx);
    let file = J::obj()
        .set("property", J::s(&prop))
        .set("seed", J::u(seed))
        .set("run", J::u(run))
        .set("engine", J::s(args.get("engine").unwrap_or("native")))
        .set("expect_sig", J::s(args.get("sig").unwrap_or("")))
        .set("note", J::s(args.get("note").unwrap_or("")))
        .set("trace", rep.trace.to_json());
    match std::fs::write(&out, file.pretty()) {
        Ok(_) => 0,
        Err(e) => {
            eprintln!("HARNESS: cannot write {}: {}", out, e);
            2
        }
    }
}

/// Execute a trace file in trace mode.
pub fn cmd_exec(args: &Args) -> i32 {
    let file = match args.get("file") {
        Some(f) => f.to_string(),
        None => return 2,
    };
    let log = args.get("log").unwrap_or("/dev/null").to_string();
    let (trace, _) = match runner::parse_trace_file(&file) {
        Ok(t) => t,
        Err(e) => {
            eprintln!("HARNESS: {}", e);
            return 2;
        }
    };
    install_panic_hook(false);
    start_watchdog(args.num("watchdog", 40) as u32);
    let mut ctx = RunCtx::new();
    ctx.trace_log = open_log(&log);
    let (out, executed) = runner::replay(&trace, &mut ctx);
    print_outcome(&out, &executed);
    0
}

// ---------------------------------------------------------------------------
// known findings

struct Known {
    status: String,
    property: String,
    what: String,
    m: BTreeMap<String, String>,
}

fn load_known() -> Vec<Known> {
    let path = format!("{}/known_findings.json", verif_root());
    let mut v = Vec::new();
    if let Ok(s) = std::fs::read_to_string(&path) {
        if let Ok(j) = json::parse(&s) {
            if let Some(a) = j.get("findings").and_then(|a| a.as_arr()) {
                for e in a {
                    let g = |k: &str| e.get(k).and_then(|x| x.as_str()).unwrap_or("").to_string();
                    let mut m = BTreeMap::new();
                    if let Some(o) = e.get("match").and_then(|o| o.as_obj()) {
                        for (k, val) in o {
                            if let Some(s) = val.as_str() {
                                m.insert(k.clone(), s.to_string());
                            }
                        }
                    }
                    v.push(Known { status: g("status"), property: g("property"), what: g("what"), m });
                }
            }
        }
    }
    v
}

fn known_match(k: &Known, prop: &str, f: &Failure) -> bool {
    if k.status != "known" || k.property != prop || k.m.is_empty() {
        return false;
    }
    for (key, val) in &k.m {
        let ok = match key.as_str() {
            "oracle" => f.oracle == val,
            "coll" => f.coll == val,
            "opkind" => f.opkind == val,
            "class" => f.class == val,
            "tag" => f.tag == *val,
            "tag_contains" => f.tag.contains(val.as_str()),
            "detail_contains" => f.detail.contains(val.as_str()),
            _ => false,
        };
        if !ok {
            return false;
        }
    }
    true
}

// ---------------------------------------------------------------------------
// check

struct Found {
    run: u64,
    failure: Failure,
    trace: Trace,
}

#[derive(Default)]
struct Pool {
    failures: Vec<Found>,
    crashes: Vec<(u64, Option<i32>, Option<i32>)>,
    stats: Vec<J>,
    samples: Vec<J>,
    hashes: BTreeMap<u64, String>,
    harness_errors: Vec<String>,
}

fn spawn_worker(prop: &str, tier: &str, seed: u64, workers: u64, index: u64, runs: u64, start: u64, hashes: bool, hashfile: &str) -> std::io::Result<std::process::Child> {
    let exe = std::env::current_exe()?;
    let mut c = Command::new(exe);
    c.arg("worker").arg("--prop").arg(prop).arg("--tier").arg(tier).arg("--seed").arg(seed.to_string()).arg("--workers").arg(workers.to_string()).arg("--index").arg(index.to_string()).arg("--runs").arg(runs.to_string()).arg("--start").arg(start.to_string()).arg("--hashfile").arg(hashfile);
    if hashes {
        c.arg("--hashes");
    }
    c.stdin(Stdio::null()).stdout(Stdio::piped()).stderr(Stdio::null()).spawn()
}

/// Run the whole batch on `workers` child processes; restart a slot after a crash.
fn run_pool(prop: &str, tier: &str, seed: u64, workers: u64, runs: u64, hashes: bool, tag: &str) -> Pool {
    let pool = Arc::new(Mutex::new(Pool::default()));
    // a badly broken tree makes workers die over and over: the first few deaths are
    // the material for triage, after a dozen the batch is cut short
    let total_crashes = Arc::new(std::sync::atomic::AtomicU64::new(0));
    let mut handles = Vec::new();
    for w in 0..workers {
        let pool = pool.clone();
        let total_crashes = total_crashes.clone();
        let prop = prop.to_string();
        let tier = tier.to_string();
        let hashfile = format!("{}/hashes-{}-{}-{}.bin", work_dir(), std::process::id(), tag, w);
        let _ = std::fs::remove_file(&hashfile);
        handles.push(std::thread::spawn(move || {
            let mut start = 0u64;
            let mut crashes_here = 0;
            loop {
                let mut child = match spawn_worker(&prop, &tier, seed, workers, w, runs, start, hashes, &hashfile) {
                    Ok(c) => c,
                    Err(e) => {
                        pool.lock().unwrap().harness_errors.push(format!("cannot spawn worker: {}", e));
                        return;
                    }
                };
                let rd = BufReader::new(child.stdout.take().unwrap());
                let mut last_run: Option<u64> = None;
                let mut finished = false;
                for line in rd.lines() {
                    let line = match line {
                        Ok(l) => l,
                        Err(_) => break,
                    };
                    if let Some(r) = line.strip_prefix("R ") {
                        last_run = r.trim().parse().ok();
                    } else if let Some(js) = line.strip_prefix("F ") {
                        if let Ok(j) = json::parse(js) {
                            let run = j.get("run").and_then(|x| x.as_i64()).unwrap_or(0) as u64;
                            if let (Some(fj), Some(tj)) = (j.get("failure"), j.get("trace")) {
                                if let Ok(tr) = Trace::from_json(tj) {
                                    pool.lock().unwrap().failures.push(Found { run, failure: failure_from_json(fj), trace: tr });
                                }
                            }
                        }
                    } else if let Some(js) = line.strip_prefix("S ") {
                        if let Ok(j) = json::parse(js) {
                            pool.lock().unwrap().stats.push(j);
                        }
                        finished = true;
                    } else if let Some(js) = line.strip_prefix("X ") {
                        if let Ok(j) = json::parse(js) {
                            pool.lock().unwrap().samples.push(j);
                        }
                    } else if let Some(d) = line.strip_prefix("D ") {
                        let mut it = d.split_whitespace();
                        if let (Some(i), Some(h)) = (it.next(), it.next()) {
                            if let Ok(i) = i.parse::<u64>() {
                                pool.lock().unwrap().hashes.insert(i, h.to_string());
                            }
                        }
                    }
                }
                let status = child.wait();
                use std::os::unix::process::ExitStatusExt;
                let (code, sig) = match status {
                    Ok(s) => (s.code(), s.signal()),
                    Err(_) => (None, None),
                };
                if finished && code == Some(0) {
                    return;
                }
                if code == Some(101) || code == Some(2) {
                    pool.lock().unwrap().harness_errors.push(format!("worker {} failed with exit code {:?} in run {:?} (harness panic): re-run `itree-sim worker` by hand to see it", w, code, last_run));
                    return;
                }
                // the worker died inside run `last_run`
                match last_run {
                    Some(r) => {
                        pool.lock().unwrap().crashes.push((r, code, sig));
                        crashes_here += 1;
                        let all = total_crashes.fetch_add(1, AO::Relaxed) + 1;
                        if crashes_here >= 8 || all >= 12 {
                            // a badly broken tree: enough material, stop exploring this slot
                            return;
                        }
                        start = r + 1;
                    }
                    None => {
                        pool.lock().unwrap().harness_errors.push(format!("worker {} died before its first run (code {:?}, signal {:?})", w, code, sig));
                        return;
                    }
                }
            }
        }));
    }
    for h in handles {
        let _ = h.join();
    }
    Arc::try_unwrap(pool).ok().map(|m| m.into_inner().unwrap()).unwrap_or_default()
}

fn count_distinct_hashes(tag: &str, workers: u64) -> u64 {
    let mut all: Vec<u64> = Vec::new();
    for w in 0..workers {
        let hashfile = format!("{}/hashes-{}-{}-{}.bin", work_dir(), std::process::id(), tag, w);
        if let Ok(b) = std::fs::read(&hashfile) {
            for c in b.chunks_exact(8) {
                all.push(u64::from_le_bytes([c[0], c[1], c[2], c[3], c[4], c[5], c[6], c[7]]));
            }
        }
        let _ = std::fs::remove_file(&hashfile);
    }
    all.sort_unstable();
    all.dedup();
    all.len() as u64
}

/// Number of coloured shapes of valid red-black trees (red root allowed) with n entries,
/// n = 0..=max_n, by dynamic programming over (size, black height, root colour).
fn valid_rb_shapes(max_n: usize) -> Vec<u128> {
    let max_h = 8usize;
    // black[n][h], red[n][h]
    let mut black = vec![vec![0u128; max_h + 1]; max_n + 1];
    let mut red = vec![vec![0u128; max_h + 1]; max_n + 1];
    black[0][0] = 1; // the empty tree counts as a black leaf of black height 0
    for n in 1..=max_n {
        for h in 0..=max_h {
            // red root: both subtrees black-rooted (or empty) with black height h
            let mut r = 0u128;
            let mut b = 0u128;
            for l in 0..n {
                let rr = n - 1 - l;
                r += black[l][h] * black[rr][h];
                if h >= 1 {
                    b += (black[l][h - 1] + red[l][h - 1]) * (black[rr][h - 1] + red[rr][h - 1]);
                }
            }
            red[n][h] = r;
            black[n][h] = b;
        }
    }
    (0..=max_n).map(|n| (0..=max_h).map(|h| black[n][h] + red[n][h]).sum()).collect()
}

fn default_workers() -> u64 {
    std::env::var("VERIF_WORKERS").ok().and_then(|v| v.parse().ok()).unwrap_or_else(|| std::thread::available_parallelism().map(|n| n.get() as u64).unwrap_or(4)).max(1)
}

fn hash_str(s: &str) -> String {
    format!("{:08x}", crate::rng::str_stream(s) as u32)
}

pub fn cmd_check(args: &Args) -> i32 {
    let t_start = Instant::now();
    let prop = args.get("prop").unwrap_or("").to_string();
    let def = match props::find(&prop) {
        Some(d) => d,
        None => {
            eprintln!("HARNESS: unknown or not-applicable property {}", prop);
            return 2;
        }
    };
    let tier = std::env::var("VERIF_TIER").ok().filter(|t| t == "quick" || t == "thorough").or_else(|| args.get("tier").map(|s| s.to_string())).unwrap_or_else(|| "quick".into());
    let tier = if args.get("tier").is_some() { args.get("tier").unwrap().to_string() } else { tier };
    let seed: u64 = args.get("seed").and_then(|s| s.parse().ok()).or_else(|| std::env::var("VERIF_SEED").ok().and_then(|s| s.parse().ok())).unwrap_or(1);
    let workers = args.get("workers").and_then(|s| s.parse().ok()).unwrap_or_else(default_workers);
    let mut runs = if tier == "thorough" { def.runs.1 } else { def.runs.0 };
    if let Some(r) = args.get("runs").and_then(|s| s.parse::<u64>().ok()).or_else(|| std::env::var("VERIF_RUNS").ok().and_then(|s| s.parse().ok())) {
        runs = r;
    }
    // secondary pass on another build profile: a fraction of the same runs
    let runs_div = args.num("runs-div", 1).max(1);
    runs = (runs / runs_div).max(1);
    let merge_evidence = args.get("merge-evidence").is_some();
    let profile: &str = match std::env::var("ITREE_SIM_PROFILE").ok().as_deref() {
        Some("dev") => "dev",
        _ => {
            if cfg!(debug_assertions) {
                "checked"
            } else {
                "plain"
            }
        }
    };
    println!("check {} tier={} seed={} runs={} workers={} build={}", prop, tier, seed, runs, workers, profile);
    let pool = run_pool(&prop, &tier, seed, workers, runs, false, "main");
    let distinct = count_distinct_hashes("main", workers);
    if !pool.harness_errors.is_empty() {
        for e in &pool.harness_errors {
            eprintln!("HARNESS: {}", e);
        }
        return 2;
    }

    // ---- triage -------------------------------------------------------------
    let mut found: Vec<Found> = pool.failures;
    let mut crashes = pool.crashes.clone();
    crashes.sort();
    let mut inconclusive_crashes = 0u64;
    let mut notes: Vec<String> = Vec::new();
    let mut hangs_triaged = 0;
    for (run, code, sig) in crashes.iter().take(4) {
        if *code == Some(97) {
            hangs_triaged += 1;
            if hangs_triaged > 2 {
                continue;
            }
        }
        let log = format!("{}/crash-{}-{}-{}.log", work_dir(), std::process::id(), prop, run);
        let a: Vec<String> = vec!["trace-run".into(), "--prop".into(), prop.clone(), "--tier".into(), tier.clone(), "--seed".into(), seed.to_string(), "--run".into(), run.to_string(), "--log".into(), log.clone(), "--watchdog".into(), "25".into()];
        match run_child(&a, Duration::from_secs(150)) {
            Ok((c2, s2, stdout, errtail, timed_out)) => match classify_child(c2, s2, &stdout, &errtail, timed_out, &log) {
                ChildOutcome::Fail(f, steps) => {
                    let info = crate::child::read_log(&log);
                    if let Some(cfg) = info.cfg {
                        found.push(Found { run: *run, failure: f, trace: Trace { cfg, steps } });
                    } else {
                        eprintln!("HARNESS: crash log of run {} has no configuration", run);
                        return 2;
                    }
                }
                ChildOutcome::Inconclusive(m) => {
                    inconclusive_crashes += 1;
                    notes.push(format!("run {}: {}", run, m));
                }
                ChildOutcome::Pass => {
                    if *code == Some(97) {
                        // first-level stall that the second, longer look does not confirm (a
                        // heavily loaded machine): not a hang, and not a finding
                        inconclusive_crashes += 1;
                        notes.push(format!("run {}: stalled under the 6 s first-level watchdog, completed normally when re-executed alone", run));
                    } else {
                        eprintln!("HARNESS: worker died in run {} (code {:?}, signal {:?}) but the run passes when re-executed alone", run, code, sig);
                        return 2;
                    }
                }
                ChildOutcome::HarnessError(e) => {
                    eprintln!("HARNESS: {}", e);
                    return 2;
                }
            },
            Err(e) => {
                eprintln!("HARNESS: {}", e);
                return 2;
            }
        }
        let _ = std::fs::remove_file(&log);
    }
    found.sort_by_key(|f| f.run);
    let mut seen: BTreeSet<String> = BTreeSet::new();
    let mut distinct_found: Vec<Found> = Vec::new();
    for f in found {
        if seen.insert(f.failure.sig()) && distinct_found.len() < 4 {
            distinct_found.push(f);
        }
    }

    // ---- minimise, write replay files, verify in a fresh process --------------
    let known = load_known();
    let mut violations = 0u64;
    let mut not_reproduced = 0u64;
    let mut known_printed: Vec<String> = Vec::new();
    let mut violation_records: Vec<J> = Vec::new();
    let replay_dir = format!("{}/replays", verif_root());
    let _ = std::fs::create_dir_all(&replay_dir);
    let shrink_budget = if tier == "thorough" { Duration::from_secs(240) } else { Duration::from_secs(45) };
    for fnd in &distinct_found {
        let sh = shrink::shrink(&fnd.trace, &fnd.failure, shrink_budget, 3000);
        let sig = sh.failure.sig();
        let path = format!("{}/{}-{}-{}{}.json", replay_dir, prop, seed, if profile == "plain" { "plain-" } else if profile == "dev" { "dev-" } else { "" }, hash_str(&format!("{}{}", sig, sh.trace.to_json().to_string())));
        let file = J::obj()
            .set("property", J::s(&prop))
            .set("seed", J::u(seed))
            .set("run", J::u(fnd.run))
            .set("tier", J::s(&tier))
            .set("profile", J::s(profile))
            .set("expect_sig", J::s(&sig))
            .set("failure", failure_json(&sh.failure))
            .set("original_steps", J::u(fnd.trace.steps.len() as u64))
            .set("shrink_candidates", J::u(sh.candidates))
            .set("trace", sh.trace.to_json());
        if let Err(e) = std::fs::write(&path, file.pretty()) {
            eprintln!("HARNESS: cannot write {}: {}", path, e);
            return 2;
        }
        // the replay must reproduce the same classification in a fresh process
        match exec_trace_in_child(&sh.trace, Duration::from_secs(150)) {
            ChildOutcome::Fail(f2, _) if f2.sig() == sig => {}
            other => {
                // never report what does not replay; remember it as a harness problem
                eprintln!("HARNESS: replay of {} did not reproduce the failure ({:?}); not reported as a violation", path, other);
                not_reproduced += 1;
                let _ = std::fs::remove_file(&path);
                continue;
            }
        }
        if let Some(k) = known.iter().find(|k| known_match(k, &prop, &sh.failure)) {
            println!("KNOWN-FINDING: property={} {}", prop, k.what);
            known_printed.push(k.what.clone());
            let _ = std::fs::remove_file(&path);
            continue;
        }
        violations += 1;
        println!("VIOLATION property={} replay={}", prop, path);
        println!("  run {} of seed {}: {} ({} steps after minimisation, from {})", fnd.run, seed, sh.failure.detail, sh.trace.steps.len(), fnd.trace.steps.len());
        violation_records.push(J::obj().set("replay", J::s(&path)).set("failure", failure_json(&sh.failure)).set("steps", J::strs(sh.trace.steps.iter().map(|s| s.to_text()))));
    }

    // ---- evidence -------------------------------------------------------------
    let wall = t_start.elapsed().as_secs_f64();
    let mut total = Stats::default();
    let mut counters: BTreeMap<String, u64> = BTreeMap::new();
    let mut shapes: BTreeSet<(u64, String)> = BTreeSet::new();
    let (mut n_runs, mut evals, mut steps, mut inconcl, mut callbacks, mut moncalls) = (0u64, 0u64, 0u64, 0u64, 0u64, 0u64);
    let mut inconcl_msgs: Vec<String> = Vec::new();
    for s in &pool.stats {
        let g = |k: &str| s.get(k).and_then(|x| x.as_i64()).unwrap_or(0) as u64;
        n_runs += g("runs");
        evals += g("evaluations");
        steps += g("steps");
        inconcl += g("inconclusive");
        callbacks += g("callbacks");
        moncalls += g("monitor_calls");
        total.oracle_evals += g("oracle_evals");
        total.ops += g("ops");
        total.ticks += g("ticks");
        total.injections_fired += g("injections_fired");
        if let Some(c) = s.get("counters").and_then(|c| c.as_obj()) {
            for (k, v) in c {
                *counters.entry(k.clone()).or_insert(0) += v.as_i64().unwrap_or(0) as u64;
            }
        }
        if let Some(a) = s.get("shapes").and_then(|a| a.as_arr()) {
            for e in a {
                if let Some(p) = e.as_arr() {
                    shapes.insert((p[0].as_i64().unwrap_or(0) as u64, p[1].as_str().unwrap_or("").to_string()));
                }
            }
        }
        if let Some(a) = s.get("inconclusive_msgs").and_then(|a| a.as_arr()) {
            for m in a {
                if inconcl_msgs.len() < 5 {
                    inconcl_msgs.push(m.as_str().unwrap_or("").to_string());
                }
            }
        }
    }
    inconcl += inconclusive_crashes;
    inconcl_msgs.extend(notes);
    let mut faults = J::obj();
    let mut reach = J::obj();
    for (k, v) in &counters {
        if let Some(f) = k.strip_prefix("fault.") {
            faults.put(f, J::u(*v));
        } else {
            reach.put(k, J::u(*v));
        }
    }
    let mut shapes_by_n: BTreeMap<u64, u64> = BTreeMap::new();
    for (n, _) in &shapes {
        *shapes_by_n.entry(*n).or_insert(0) += 1;
    }
    let mut shapes_j = J::obj();
    let valid = valid_rb_shapes(12);
    for (n, c) in &shapes_by_n {
        let v = valid.get(*n as usize).copied().unwrap_or(0);
        shapes_j.put(&format!("n={}", n), J::s(&format!("{} reached of {} valid coloured shapes", c, v)));
    }
    let samples: Vec<J> = pool.samples.iter().take(3).cloned().collect();
    let samples = if samples.is_empty() { vec![J::s("(no run of at least 4 steps in worker 0)")] } else { samples };
    let rule = "runs are generated by the seeded scheduler/workload generator (swarm configuration, then one decision per step, all from one PRNG seeded by mix(VERIF_SEED, property, run index)); a run counts as non-trivial when it executed at least 3 operations and at least one oracle of this property was evaluated in it; distinct = number of different rolling hashes over (operations, answers, tree shapes) among the non-trivial runs";
    let coverage = J::obj()
        .set("evaluations", J::u(evals.max(1)))
        .set("distinct_nontrivial", J::u(distinct))
        .set("rule", J::s(rule))
        .set("samples", J::Arr(samples))
        .set("runs", J::u(n_runs))
        .set("operations_executed", J::u(total.ops))
        .set("recorded_steps", J::u(steps))
        .set("oracle_evaluations", J::u(total.oracle_evals))
        .set("runs_per_hour", J::u((n_runs as f64 / wall.max(0.001) * 3600.0) as u64))
        .set("seeds_per_hour", J::u((n_runs as f64 / wall.max(0.001) * 3600.0) as u64))
        .set("simulated_ticks", J::u(total.ticks))
        .set("callbacks_instrumented", J::u(callbacks))
        .set("comparison_monitor_calls", J::u(moncalls))
        .set("fault_kinds_fired", faults)
        .set("injections_fired", J::u(total.injections_fired))
        .set("reach", reach)
        .set("distinct_tree_shapes_by_size", shapes_j)
        .set("inconclusive_runs", J::u(inconcl))
        .set("inconclusive_examples", J::strs(inconcl_msgs))
        .set("worker_crashes", J::u(pool.crashes.len() as u64))
        .set("components", J::obj().set("real", J::strs(["MapTree", "MapList", "SetTree", "SetList", "KeyExpTree", "KeyExpList", "SegExpTree (all from /repo's working tree, guard on)"].iter().map(|s| s.to_string()))).set("simulated", J::strs(["logical clock", "user callbacks (Ord::cmp, comparator closures, KeyValue::key, expiration accessors)", "iterator consumer", "global allocator wrapper", "reference models"].iter().map(|s| s.to_string()))))
        .set("build_profile", J::s(if profile == "dev" { "dev (opt-level 0, debug assertions, overflow checks)" } else if cfg!(debug_assertions) { "release + debug-assertions + overflow-checks (checked)" } else { "plain release" }))
        .set("workers", J::u(workers))
        .set("known_findings_printed", J::strs(known_printed.clone()))
        .set("violation_records", J::Arr(violation_records));
    let ev = J::obj()
        .set("property_id", J::s(&prop))
        .set("tier", J::s(&tier))
        .set("seed", J::u(seed))
        .set("level", J::s(def.level))
        .set("coverage", coverage)
        .set(
            "assumptions",
            J::strs(
                [
                    "sampled, not exhaustive: a clean batch is evidence, not proof",
                    "the reference models (BTreeMap / vector) and the structural checker are trusted",
                    "out-of-bounds unchecked accesses are detected through the standard library's unsafe-precondition checks (checked build)",
                    "operations are generated inside the documented contract only (distinct live keys, non-decreasing time, expiration >= insertion time, fresh handles, in-domain ranges, monotone comparators with at most one Equal key)",
                ]
                .iter()
                .map(|s| s.to_string()),
            ),
        )
        .set("wall_s", J::Num((wall * 1000.0).round() / 1000.0))
        .set("violations", J::u(violations));
    let ev_dir = format!("{}/evidence", verif_root());
    let _ = std::fs::create_dir_all(&ev_dir);
    let ev_path = format!("{}/{}.json", ev_dir, prop);
    let ev = if merge_evidence {
        // secondary pass (other build profile): fold a summary into the evidence of the primary pass
        match std::fs::read_to_string(&ev_path).ok().and_then(|t| json::parse(&t).ok()) {
            Some(mut main) => {
                let g = |k: &str| ev.get("coverage").and_then(|c| c.get(k)).cloned().unwrap_or(J::Null);
                let summary = J::obj()
                    .set("build_profile", g("build_profile"))
                    .set("what", J::s(if profile == "dev" { "the first 1/n of the same seeded runs executed once more on an unoptimised build (opt-level 0, as `cargo test` builds the crate: recursion is not turned into loops), same oracles" } else { "the first 1/n of the same seeded runs executed once more on the plain release build (no debug assertions, no overflow checks, no unsafe-precondition checks: what users ship), same oracles" }))
                    .set("runs", g("runs"))
                    .set("evaluations", g("evaluations"))
                    .set("oracle_evaluations", g("oracle_evaluations"))
                    .set("inconclusive_runs", g("inconclusive_runs"))
                    .set("worker_crashes", g("worker_crashes"))
                    .set("violations", J::u(violations))
                    .set("violation_records", g("violation_records"))
                    .set("wall_s", J::Num((wall * 1000.0).round() / 1000.0));
                let prev_v = main.get("violations").and_then(|v| v.as_i64()).unwrap_or(0) as u64;
                let prev_w = match main.get("wall_s") {
                    Some(J::Num(f)) => *f,
                    Some(J::Int(i)) => *i as f64,
                    _ => 0.0,
                };
                if let Some(J::Obj(items)) = main.get("coverage").cloned().as_ref() {
                    let mut cov = J::Obj(items.clone());
                    cov.put(if profile == "dev" { "dev_build_pass" } else { "plain_build_pass" }, summary);
                    main.put("coverage", cov);
                }
                main.put("violations", J::u(prev_v + violations));
                main.put("wall_s", J::Num(((prev_w + wall) * 1000.0).round() / 1000.0));
                main
            }
            None => ev,
        }
    } else {
        ev
    };
    if let Err(e) = std::fs::write(&ev_path, ev.pretty()) {
        eprintln!("HARNESS: cannot write {}: {}", ev_path, e);
        return 2;
    }
    println!(
        "{}: {} runs, {} executions, {} distinct non-trivial, {} oracle evaluations, {} inconclusive, {} violation(s), {:.1}s",
        prop, n_runs, evals, distinct, total.oracle_evals, inconcl, violations, wall
    );
    if violations > 0 {
        return 1;
    }
    if not_reproduced > 0 {
        eprintln!("HARNESS: {} failure(s) did not replay (nondeterminism: undefined behaviour in the code under test, or a harness defect)", not_reproduced);
        return 2;
    }
    if n_runs == 0 && known_printed.is_empty() && pool.crashes.is_empty() {
        eprintln!("HARNESS: no run was executed");
        return 2;
    }
    0
}

// ---------------------------------------------------------------------------
// replay

pub fn cmd_replay(args: &Args) -> i32 {
    let file = match args.pos.get(1) {
        Some(f) => f.clone(),
        None => {
            eprintln!("usage: itree-sim replay <file>");
            return 2;
        }
    };
    let (trace, j) = match runner::parse_trace_file(&file) {
        Ok(t) => t,
        Err(e) => {
            eprintln!("HARNESS: {}", e);
            return 2;
        }
    };
    let expect = j.get("expect_sig").and_then(|s| s.as_str()).unwrap_or("").to_string();
    let prop = j.get("property").and_then(|s| s.as_str()).unwrap_or(&trace.cfg.prop).to_string();
    println!("replaying {} ({} steps) in a fresh process", file, trace.steps.len());
    for s in &trace.steps {
        println!("  {}", s.to_text());
    }
    match exec_trace_in_child(&trace, Duration::from_secs(150)) {
        ChildOutcome::Fail(f, _) => {
            println!("outcome: {}", f.detail);
            println!("classification: {}", f.sig());
            if expect.is_empty() || f.sig() == expect {
                println!("VIOLATION property={} replay={}", prop, file);
                1
            } else {
                println!("a different failure than recorded ({})", expect);
                println!("VIOLATION property={} replay={}", prop, file);
                1
            }
        }
        ChildOutcome::Pass => {
            println!("outcome: the trace passes (recorded failure not reproduced on this tree)");
            0
        }
        ChildOutcome::Inconclusive(m) => {
            println!("outcome: inconclusive: {}", m);
            0
        }
        ChildOutcome::HarnessError(e) => {
            eprintln!("HARNESS: {}", e);
            2
        }
    }
}

// ---------------------------------------------------------------------------
// selfcheck determinism

pub fn cmd_selfcheck(args: &Args) -> i32 {
    let what = args.pos.get(1).map(|s| s.as_str()).unwrap_or("");
    if what != "determinism" {
        eprintln!("usage: itree-sim selfcheck determinism [--runs N] [--seeds K]");
        return 2;
    }
    let t0 = Instant::now();
    let runs = args.num("runs", 600);
    let seeds = args.num("seeds", 3);
    let mut bad = 0u64;
    let mut compared = 0u64;
    let mut per_prop = J::obj();
    for def in props::PROPS {
        let r = if def.id == "C19" { runs.min(60) } else { runs };
        for s in 0..seeds {
            let seed = 1000 + s * 7919;
            let a = run_pool(def.id, "quick", seed, 1, r, true, "d1");
            let _ = count_distinct_hashes("d1", 1);
            let b = run_pool(def.id, "quick", seed, 5, r, true, "d5");
            let _ = count_distinct_hashes("d5", 5);
            let c = run_pool(def.id, "quick", seed, 16, r, true, "d16");
            let _ = count_distinct_hashes("d16", 16);
            for i in 0..r {
                compared += 1;
                let (x, y, z) = (a.hashes.get(&i), b.hashes.get(&i), c.hashes.get(&i));
                if x.is_none() || x != y || x != z {
                    bad += 1;
                    if bad <= 10 {
                        println!("NONDETERMINISM {} seed {} run {}: {:?} {:?} {:?}", def.id, seed, i, x, y, z);
                    }
                }
            }
        }
        per_prop.put(def.id, J::u(r * seeds));
        println!("{}: {} runs x 3 worker counts compared", def.id, r * seeds);
    }
    let ev = J::obj()
        .set("what", J::s("every run executed three times, in different processes, at worker counts 1, 5 and 16; per-run hashes over operations, answers and tree shapes compared"))
        .set("runs_compared", J::u(compared))
        .set("mismatches", J::u(bad))
        .set("per_property", per_prop)
        .set("wall_s", J::Num(t0.elapsed().as_secs_f64()));
    let _ = std::fs::create_dir_all(format!("{}/evidence", verif_root()));
    let _ = std::fs::write(format!("{}/evidence/selfcheck-determinism.json", verif_root()), ev.pretty());
    println!("determinism: {} runs compared, {} mismatches", compared, bad);
    if bad > 0 {
        1
    } else {
        0
    }
}
