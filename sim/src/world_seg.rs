//! SEG world: SegExpTree (real code) over a randomised domain and coordinate
//! type, against a vector model with an independently written bucket function.

use crate::core::*;
use crate::instr::{SegVal, SegValN};
use crate::op::{Flow, Op, Step};
use crate::rng::Rng;
use i_tree::seg::exp::{SegExpCollection, SegRange};
use i_tree::seg::tree::SegExpTree;
use std::collections::{BTreeMap, BTreeSet};

/// markers in the answer of a query consumed in a way that does not show the values
pub const MARK_COUNTED: u32 = u32::MAX - 3;
pub const MARK_BAD_HINT: u32 = u32::MAX - 4;

pub trait SColl {
    fn insert(&mut self, a: i64, b: i64, v: SegVal);
    /// take < 0: consume fully; otherwise pull `take` items and drop the iterator
    fn query(&mut self, a: i64, b: i64, t: i32, take: i32) -> Vec<SegVal>;
    fn clear(&mut self);
    fn copies(&self) -> Vec<(usize, u64, SegVal)>;
    fn places(&self) -> usize;
}

#[inline]
fn to_wide(v: SegVal) -> SegVal {
    v
}
#[inline]
fn to_narrow(v: SegVal) -> SegValN {
    SegValN { id: v.id, exp: v.exp.clamp(0, 255) as u8, pad: [v.id; 3] }
}
#[inline]
fn from_narrow(v: SegValN) -> SegVal {
    SegVal { id: v.id, exp: v.exp as i32 }
}
#[inline]
fn time_wide(t: i32) -> i32 {
    t
}
#[inline]
fn time_narrow(t: i32) -> u8 {
    t.clamp(0, 255) as u8
}

macro_rules! seg_impl {
    ($r:ty, $e:ty, $v:ty, $to:ident, $from:ident, $time:ident) => {
        impl SColl for SegExpTree<$r, $e, $v> {
            fn insert(&mut self, a: i64, b: i64, v: SegVal) {
                self.insert_by_range(SegRange { min: a as $r, max: b as $r }, $to(v))
            }
            fn query(&mut self, a: i64, b: i64, t: i32, take: i32) -> Vec<SegVal> {
                // every consumption mode is applied to the library's own iterator (no adapter in
                // between), so that its specialisations of count / nth / last / fold / size_hint,
                // if it has any, are what runs; values are converted afterwards
                let mut it = self.iter_by_range(SegRange { min: a as $r, max: b as $r }, $time(t));
                let mut out: Vec<$v> = Vec::new();
                let mut marks: Vec<SegVal> = Vec::new();
                if take == -4 {
                    // crash-point runs: a panic out of next() is caught per call and the SAME
                    // iterator is polled on - no value may be lost or repeated by that
                    let mut panics = 0;
                    loop {
                        match std::panic::catch_unwind(std::panic::AssertUnwindSafe(|| it.next())) {
                            Ok(Some(v)) => out.push(v),
                            Ok(None) => break,
                            Err(p) => {
                                panics += 1;
                                if p.downcast_ref::<crate::instr::Injected>().is_none() || panics > 2 {
                                    std::panic::resume_unwind(p);
                                }
                            }
                        }
                    }
                } else if take == -2 {
                    // fold-based consumption (for_each, sum ... go through fold)
                    out = it.fold(Vec::new(), |mut acc, v| {
                        acc.push(v);
                        acc
                    });
                } else if take == -3 {
                    // consumed to the end, then leaked instead of dropped (safe Rust allows it)
                    while let Some(v) = it.next() {
                        out.push(v);
                    }
                    std::mem::forget(it);
                } else if take == -5 {
                    // count(): the values are not seen, only how many there were
                    let c = it.count();
                    marks = vec![SegVal { id: MARK_COUNTED, exp: 0 }; c];
                } else if take == -6 {
                    // nth(0) until exhausted (what skip / step_by adapters call)
                    while let Some(v) = it.nth(0) {
                        out.push(v);
                    }
                } else if take == -7 {
                    // skip(1): everything but one value
                    out = it.skip(1).collect();
                } else if take == -8 {
                    // size_hint() before every next() and after exhaustion (what collect / extend /
                    // chain adapters call); a hint that contradicts the items is reported by a marker
                    let mut consistent = true;
                    loop {
                        let (lo, hi) = it.size_hint();
                        match it.next() {
                            Some(v) => {
                                consistent &= hi.map_or(true, |h| h >= 1);
                                out.push(v);
                            }
                            None => {
                                consistent &= lo == 0;
                                let (lo2, _) = it.size_hint();
                                consistent &= lo2 == 0;
                                break;
                            }
                        }
                    }
                    if !consistent {
                        marks.push(SegVal { id: MARK_BAD_HINT, exp: 0 });
                    }
                } else if take == -9 {
                    // last()
                    out = it.last().into_iter().collect();
                } else if take < 0 {
                    for v in it {
                        out.push(v);
                    }
                } else {
                    for _ in 0..take {
                        match it.next() {
                            Some(v) => out.push(v),
                            None => break,
                        }
                    }
                    drop(it);
                }
                let mut res: Vec<SegVal> = out.into_iter().map($from).collect();
                res.extend(marks);
                res
            }
            fn clear(&mut self) {
                SegExpCollection::clear(self)
            }
            fn copies(&self) -> Vec<(usize, u64, SegVal)> {
                self.verif_copies().into_iter().map(|c| (c.place, c.mask, $from(c.val))).collect()
            }
            fn places(&self) -> usize {
                self.verif_places()
            }
        }
    };
}
seg_impl!(i32, i32, SegVal, to_wide, to_wide, time_wide);
seg_impl!(i16, i32, SegVal, to_wide, to_wide, time_wide);
seg_impl!(u8, i32, SegVal, to_wide, to_wide, time_wide);
seg_impl!(i64, i32, SegVal, to_wide, to_wide, time_wide);
seg_impl!(i32, u8, SegValN, to_narrow, from_narrow, time_narrow);
seg_impl!(i16, u8, SegValN, to_narrow, from_narrow, time_narrow);
seg_impl!(u8, u8, SegValN, to_narrow, from_narrow, time_narrow);
seg_impl!(i64, u8, SegValN, to_narrow, from_narrow, time_narrow);

pub fn build(ty: u8, lo: i64, hi: i64) -> Option<Box<dyn SColl>> {
    build_ty(ty, 0, lo, hi)
}

/// `narrow`: 1 = 8-bit expirations and the larger value type
pub fn build_ty(ty: u8, narrow: u8, lo: i64, hi: i64) -> Option<Box<dyn SColl>> {
    if narrow == 1 {
        return Some(match ty {
            0 => Box::new(SegExpTree::<i32, u8, SegValN>::new(SegRange { min: lo as i32, max: hi as i32 })?),
            1 => Box::new(SegExpTree::<i16, u8, SegValN>::new(SegRange { min: lo as i16, max: hi as i16 })?),
            2 => Box::new(SegExpTree::<u8, u8, SegValN>::new(SegRange { min: lo as u8, max: hi as u8 })?),
            _ => Box::new(SegExpTree::<i64, u8, SegValN>::new(SegRange { min: lo, max: hi })?),
        });
    }
    Some(match ty {
        0 => Box::new(SegExpTree::<i32, i32, SegVal>::new(SegRange { min: lo as i32, max: hi as i32 })?),
        1 => Box::new(SegExpTree::<i16, i32, SegVal>::new(SegRange { min: lo as i16, max: hi as i16 })?),
        2 => Box::new(SegExpTree::<u8, i32, SegVal>::new(SegRange { min: lo as u8, max: hi as u8 })?),
        _ => Box::new(SegExpTree::<i64, i32, SegVal>::new(SegRange { min: lo, max: hi })?),
    })
}

#[derive(Clone, Debug)]
struct SItem {
    id: u32,
    exp: i32,
    blo: i64,
    bhi: i64,
    a: i64,
    b: i64,
}

#[derive(Clone, Debug)]
pub struct SegGen {
    pub w: [u32; 6],
    pub exp_w: [u32; 5],
    pub coord_w: [u32; 5],
    pub cancel_pct: u64,
    pub horizon: i32,
    pub forced_clear_at: Option<usize>,
    pub generated: usize,
    /// probability (percent) that an insert repeats the previous range (long bucket lists)
    pub hot_pct: u64,
    pub last_range: Option<(i64, i64)>,
    pub pending: std::collections::VecDeque<Op>,
}

pub struct SegWorld {
    pub cfg: Cfg,
    tree: Box<dyn SColl>,
    twin: Option<Box<dyn SColl>>,
    items: Vec<SItem>,
    now: i32,
    next_id: u32,
    scale: u32,
    /// end of the time line (i32::MAX, or 255 with 8-bit expirations)
    tmax: i32,
    pub gen: SegGen,
}

impl SegWorld {
    pub fn new(cfg: Cfg, rng: Option<&mut Rng>) -> Result<SegWorld, String> {
        let tree = build_ty(cfg.seg_ty, cfg.key_ty, cfg.seg_lo, cfg.seg_hi).ok_or_else(|| format!("SegExpTree::new refused the domain [{}, {}]", cfg.seg_lo, cfg.seg_hi))?;
        let len = (cfg.seg_hi - cfg.seg_lo + 1) as u64;
        // independent of layout.rs: smallest power-of-two bucket width for which 32 buckets cover the domain
        let mut scale = 0u32;
        while (32u128 << scale) < len as u128 {
            scale += 1;
        }
        let gen = match rng {
            Some(r) => SegGen {
                w: [*r.pick(&[5, 10, 20]), *r.pick(&[2, 5, 10, 20]), *r.pick(&[0, 1, 3, 6]), *r.pick(&[0, 1, 2]), *r.pick(&[0, 0, 1]), *r.pick(&[0, 1, 2])],
                exp_w: [*r.pick(&[0, 1, 2]), *r.pick(&[0, 1, 2]), *r.pick(&[1, 2, 4]), *r.pick(&[0, 1, 2]), *r.pick(&[0, 1])],
                coord_w: [*r.pick(&[0, 1, 2]), *r.pick(&[0, 1, 2]), *r.pick(&[1, 2, 4]), *r.pick(&[0, 1, 3]), *r.pick(&[0, 1, 2])],
                cancel_pct: *r.pick(&[0, 0, 10, 30, 60]),
                horizon: *r.pick(&[2, 5, 20, 100]),
                forced_clear_at: if cfg.has(O_TWIN) { Some(r.below(12) as usize) } else { None },
                generated: 0,
                hot_pct: *r.pick(&[0, 0, 0, 30, 80, 95]),
                last_range: None,
                pending: std::collections::VecDeque::new(),
            },
            None => SegGen { w: [10, 10, 3, 1, 0, 1], exp_w: [1, 1, 2, 1, 1], coord_w: [1, 1, 2, 1, 1], cancel_pct: 10, horizon: 10, forced_clear_at: None, generated: 0, hot_pct: 0, last_range: None, pending: std::collections::VecDeque::new() },
        };
        let tmax = if cfg.key_ty == 1 { 255 } else { i32::MAX };
        Ok(SegWorld { now: if cfg.key_ty == 1 { cfg.t0.clamp(0, tmax) } else { cfg.t0 }, tree, twin: None, items: Vec::new(), next_id: 1, scale, tmax, gen, cfg })
    }

    #[inline]
    fn bucket(&self, x: i64) -> i64 {
        (x - self.cfg.seg_lo) >> self.scale
    }

    fn expected(&self, a: i64, b: i64) -> Vec<u32> {
        let (qlo, qhi) = (self.bucket(a), self.bucket(b));
        let mut v: Vec<u32> = self.items.iter().filter(|it| it.exp >= self.now && it.blo <= qhi && it.bhi >= qlo).map(|it| it.id).collect();
        v.sort_unstable();
        v
    }

    fn visited_places(&self, a: i64, b: i64) -> BTreeSet<usize> {
        let mut s = BTreeSet::new();
        for bk in self.bucket(a)..=self.bucket(b) {
            let mut i = (bk + 31) as usize;
            loop {
                s.insert(i);
                if i == 0 {
                    break;
                }
                i = (i - 1) / 2;
            }
        }
        s
    }

    fn check_dropped(&mut self, ctx: &mut RunCtx, a: i64, b: i64) -> Result<(), Stop> {
        let copies = self.tree.copies();
        let visited = self.visited_places(a, b);
        let t = self.now;
        ctx.stats.oracle_evals += 1;
        for (place, _, v) in &copies {
            if visited.contains(place) && v.exp < t {
                return Err(invariant(
                    "seg.drop",
                    "SegExpTree",
                    "SQuery",
                    "expired copy left in a scanned bucket list",
                    format!("after a fully consumed query over [{}, {}] at time {} the scanned place {} still stores a copy of value {} with expiration {}", a, b, t, place, v.id, v.exp),
                ));
            }
        }
        let whole = self.bucket(a) == 0 && self.bucket(b) == self.bucket(self.cfg.seg_hi);
        if whole {
            ctx.stats.bump("seg.whole_domain_full_query");
            let live: BTreeSet<u32> = self.items.iter().filter(|it| it.exp >= t).map(|it| it.id).collect();
            for (place, _, v) in &copies {
                if v.exp < t || !live.contains(&v.id) {
                    return Err(invariant(
                        "seg.drop",
                        "SegExpTree",
                        "SQuery",
                        "expired copy stored after whole-domain query",
                        format!("after a fully consumed whole-domain query at time {} place {} stores a copy of value {} (expiration {})", t, place, v.id, v.exp),
                    ));
                }
            }
            if copies.len() > 8 * live.len() {
                return Err(invariant("seg.drop", "SegExpTree", "SQuery", "more than 8 copies per unexpired value", format!("{} copies stored for {} unexpired values", copies.len(), live.len())));
            }
        }
        Ok(())
    }

    /// mask consistency: every unexpired value is stored exactly at the places of its own mask
    fn check_masks(&mut self, ctx: &mut RunCtx, opkind: &'static str) -> Result<(), Stop> {
        let copies = self.tree.copies();
        let places = self.tree.places();
        let t = self.now;
        let mut by_id: BTreeMap<u32, (u64, u64, u32)> = BTreeMap::new();
        for (place, mask, v) in &copies {
            if *place >= places || *place >= 64 {
                return Err(invariant("struct", "SegExpTree", opkind, "copy outside the storage", format!("copy at place {}", place)));
            }
            if mask & (1u64 << place) == 0 {
                return Err(invariant("struct", "SegExpTree", opkind, "copy stored at a place outside its mask", format!("value {} at place {} mask {:#x}", v.id, place, mask)));
            }
            let e = by_id.entry(v.id).or_insert((*mask, 0, 0));
            if e.1 & (1u64 << place) != 0 {
                return Err(invariant("struct", "SegExpTree", opkind, "value stored twice at one place", format!("value {} twice at place {}", v.id, place)));
            }
            e.1 |= 1u64 << place;
            e.2 += 1;
        }
        for it in self.items.iter().filter(|it| it.exp >= t) {
            match by_id.get(&it.id) {
                Some((mask, at, _)) if mask == at => {}
                other => {
                    return Err(invariant("struct", "SegExpTree", opkind, "unexpired value not stored at exactly its places", format!("value {} (exp {}): (mask, stored-at, copies) = {:?}", it.id, it.exp, other)));
                }
            }
        }
        ctx.stats.oracle_evals += 1;
        Ok(())
    }

    fn step_query(&mut self, step: &Step, a: i64, b: i64, take: i32, ctx: &mut RunCtx) -> Result<(), Stop> {
        let cfg = self.cfg.clone();
        let t = self.now;
        let expect = self.expected(a, b);
        let observed = cfg.has(O_SQUERY) || cfg.has(O_SDROP);
        if a == b {
            ctx.stats.bump("seg.single_point_query");
        }
        if self.items.iter().any(|it| it.exp == t) {
            ctx.stats.bump("seg.query_time_equals_an_expiration");
        }
        let before_copies = if ctx.collect_shapes { self.tree.copies().len() } else { 0 };
        let mut twin_ids: Option<Vec<u32>> = None;
        if let Some(tw) = self.twin.as_mut() {
            let (r2, _) = call(ctx, &cfg, "SegExpTree(twin)", "iter_by_range", "SQuery", false, None, None, || tw.query(a, b, t, take))?;
            if let Called::Ok(g2) = r2 {
                let mut ids2: Vec<u32> = g2.iter().map(|v| v.id).collect();
                ids2.sort_unstable();
                twin_ids = Some(ids2);
            }
        }
        // crash-point runs: on odd crash points keep polling the same iterator after the caught panic
        let take = match step.panic_at {
            Some(j) if take == -1 && j % 2 == 1 && j != crate::op::CONTROL => -4,
            _ => take,
        };
        let tree = &mut self.tree;
        let (r, n) = call(ctx, &cfg, "SegExpTree", "iter_by_range", "SQuery", observed || twin_ids.is_some(), step.panic_at, None, || tree.query(a, b, t, take))?;
        ctx.cb_counts.push(n);
        match r {
            Called::Ok(got) => {
                let mut ids: Vec<u32> = got.iter().map(|v| v.id).collect();
                ids.sort_unstable();
                ctx.mix(ids.len() as u64);
                for i in &ids {
                    ctx.mix(*i as u64);
                }
                if ctx.collect_shapes {
                    let after = self.tree.copies().len();
                    if after < before_copies {
                        ctx.stats.bump("seg.scan_removed_expired_copies");
                    }
                }
                if take == -4 {
                    ctx.stats.bump("fault.iterator_polled_on_after_caught_panic");
                } else if take == -2 {
                    ctx.stats.bump("seg.query_consumed_by_fold");
                } else if take == -3 {
                    ctx.stats.bump("fault.iter_leaked_after_full_consumption");
                }
                if take >= 0 {
                    ctx.stats.bump("fault.iter_cancel");
                    if (take as usize) < expect.len() {
                        ctx.stats.bump("fault.iter_cancel_midway");
                    }
                }
                if take <= -5 {
                    ctx.stats.bump("seg.query_consumed_by_count_nth_skip_hint_or_last");
                }
                if (cfg.has(O_SQUERY) || cfg.has(O_TORN)) && matches!(take, -5 | -7 | -9) || ids.contains(&MARK_BAD_HINT) && (cfg.has(O_SQUERY) || cfg.has(O_TORN) || cfg.has(O_CRASH)) {
                    // the values are not (all) seen: compare what is
                    ctx.stats.oracle_evals += 1;
                    let want = match take {
                        -5 => expect.len(),
                        -7 => expect.len().saturating_sub(1),
                        -9 => expect.len().min(1),
                        _ => usize::MAX,
                    };
                    let stray = take != -5 && ids.iter().any(|i| !expect.contains(i));
                    let dup = take != -5 && ids.windows(2).any(|w| w[0] == w[1]);
                    if ids.contains(&MARK_BAD_HINT) {
                        return Err(mismatch("seg.query", "SegExpTree", "SQuery", "size_hint contradicts the items yielded", format!("query [{}, {}] at time {}: size_hint() gave a lower bound above, or an upper bound below, what next() then yielded", a, b, t)));
                    }
                    if ids.len() != want || stray || dup {
                        let tag = if dup {
                            "value yielded twice"
                        } else if stray {
                            "unexpected value yielded"
                        } else if ids.len() > want {
                            "too many values"
                        } else {
                            "value missing"
                        };
                        return Err(mismatch("seg.query", "SegExpTree", "SQuery", tag, format!("query [{}, {}] at time {} consumed by {} yielded {} values {:?}, reference {:?}", a, b, t, match take { -5 => "count()", -7 => "skip(1)", _ => "last()" }, ids.len(), brief(&ids), brief(&expect))));
                    }
                } else if cfg.has(O_SQUERY) || cfg.has(O_TORN) {
                    ctx.stats.oracle_evals += 1;
                    if take < 0 {
                        if ids != expect {
                            let dup = ids.windows(2).any(|w| w[0] == w[1]);
                            let tag = if dup {
                                "value yielded twice"
                            } else if ids.iter().any(|i| !expect.contains(i)) {
                                "unexpected value yielded"
                            } else {
                                "value missing"
                            };
                            return Err(mismatch("seg.query", "SegExpTree", "SQuery", tag, format!("query [{}, {}] at time {} yielded ids {:?}, reference {:?}; {}", a, b, t, brief(&ids), brief(&expect), self.describe(&ids, &expect))));
                        }
                    } else {
                        let want = (take as usize).min(expect.len());
                        let dup = ids.windows(2).any(|w| w[0] == w[1]);
                        let stray = ids.iter().any(|i| !expect.contains(i));
                        if dup || stray || ids.len() != want {
                            let tag = if dup {
                                "value yielded twice"
                            } else if stray {
                                "unexpected value yielded"
                            } else {
                                "partial query yielded too few"
                            };
                            return Err(mismatch("seg.query", "SegExpTree", "SQuery", tag, format!("query [{}, {}] at time {} cancelled after {} items yielded ids {:?}, reference set {:?}", a, b, t, take, brief(&ids), brief(&expect))));
                        }
                    }
                }
                if take < 0 && cfg.has(O_SDROP) {
                    self.check_dropped(ctx, a, b)?;
                }
                if let Some(ids2) = twin_ids {
                    ctx.stats.oracle_evals += 1;
                    // order is unspecified, so a partially consumed query may legitimately pick other items: compare sizes only
                    let same = if take < 0 && !matches!(take, -5 | -7 | -9) { ids2 == ids } else { ids2.len() == ids.len() };
                    if !same {
                        return Err(mismatch("twin", "SegExpTree", "SQuery", "query differs from twin", format!("query [{}, {}] at time {} (take {}): cleared instance yielded {:?}, fresh twin {:?}", a, b, t, take, brief(&ids), brief(&ids2))));
                    }
                }
            }
            Called::Injected => {
                ctx.stats.bump("fault.callback_panic_fired");
                if cfg.has(O_TORN) {
                    self.check_masks(ctx, "SQuery")?;
                    self.full_observation(ctx, "SQuery")?;
                }
            }
        }
        // values that have expired can never be yielded again while time does not decrease
        let t = self.now;
        self.items.retain(|it| it.exp >= t);
        Ok(())
    }

    fn describe(&self, got: &[u32], exp: &[u32]) -> String {
        let mut s = String::new();
        for id in got.iter().chain(exp.iter()) {
            if got.contains(id) != exp.contains(id) || got.iter().filter(|x| *x == id).count() > 1 {
                if let Some(it) = self.items.iter().find(|it| it.id == *id) {
                    s = format!("value {} has range [{}, {}] (buckets {}..={}) expiration {}", id, it.a, it.b, it.blo, it.bhi, it.exp);
                    break;
                }
            }
        }
        s
    }

    /// whole-domain fully consumed query must equal the model
    fn full_observation(&mut self, ctx: &mut RunCtx, opkind: &'static str) -> Result<(), Stop> {
        let cfg = self.cfg.clone();
        let (a, b, t) = (cfg.seg_lo, cfg.seg_hi, self.now);
        let expect = self.expected(a, b);
        let tree = &mut self.tree;
        let (r, _) = call(ctx, &cfg, "SegExpTree", "iter_by_range", opkind, true, None, None, || tree.query(a, b, t, -1))?;
        if let Called::Ok(got) = r {
            let mut ids: Vec<u32> = got.iter().map(|v| v.id).collect();
            ids.sort_unstable();
            ctx.stats.oracle_evals += 1;
            if ids != expect {
                let oracle = if opkind == "SClear" { "twin" } else { "torn" };
                return Err(mismatch(oracle, "SegExpTree", opkind, "contents differ from the reference", format!("whole-domain query at time {} yields {:?}, reference {:?}", t, brief(&ids), brief(&expect))));
            }
        }
        Ok(())
    }

    // ---- generation ------------------------------------------------------

    fn pick_coord(&mut self, r: &mut Rng) -> i64 {
        let (lo, hi) = (self.cfg.seg_lo, self.cfg.seg_hi);
        let w = 1i64 << self.scale;
        match r.weighted(&self.gen.coord_w) {
            0 => lo,
            1 => hi,
            2 => r.range(lo, hi),
            3 => {
                // a bucket edge, +-1
                let nb = ((hi - lo) >> self.scale) + 1;
                let edge = lo + r.range(0, nb - 1) * w + *r.pick(&[-1i64, 0, 0, 1]);
                edge.clamp(lo, hi)
            }
            _ => (lo + (hi - lo) / 2 + r.range(-2, 2)).clamp(lo, hi),
        }
    }

    fn pick_range(&mut self, r: &mut Rng) -> (i64, i64) {
        let a = self.pick_coord(r);
        let b = match r.below(4) {
            0 => a,
            1 => (a + r.range(0, 3 << self.scale)).min(self.cfg.seg_hi),
            _ => self.pick_coord(r),
        };
        (a.min(b), a.max(b))
    }
}

fn brief(v: &[u32]) -> Vec<u32> {
    v.iter().take(16).copied().collect()
}

impl World for SegWorld {
    fn legal(&self, op: &Op) -> bool {
        let (lo, hi) = (self.cfg.seg_lo, self.cfg.seg_hi);
        match op {
            Op::Tick { dt } => *dt >= 0,
            Op::SIns { a, b, exp } => lo <= *a && a <= b && *b <= hi && (self.cfg.key_ty != 1 || (0..=255).contains(exp)),
            Op::SQuery { a, b, take } => lo <= *a && a <= b && *b <= hi && *take >= -9,
            Op::SClear { .. } => true,
            Op::SBulk { a, b, n, exp } => lo <= *a && a <= b && *b <= hi && *n > 0 && *n <= 200_000 && (self.cfg.key_ty != 1 || (0..=255).contains(exp)),
            _ => false,
        }
    }

    fn apply(&mut self, step: &Step, ctx: &mut RunCtx) -> Result<Flow, Stop> {
        ctx.stats.ops += 1;
        ctx.panic_at = step.panic_at;
        let cfg = self.cfg.clone();
        if step.panic_at == Some(crate::op::CONTROL) && cfg.has(O_TORN) {
            // control run of C18: the checks that follow an injected panic, without the panic
            self.check_masks(ctx, "SQuery")?;
            self.full_observation(ctx, "SQuery")?;
        }
        match step.op {
            Op::Tick { dt } => {
                let old = self.now;
                self.now = self.now.saturating_add(dt.max(0)).min(self.tmax);
                if self.now == self.tmax && old != self.tmax {
                    ctx.stats.bump("fault.clock_reaches_end_of_time_line");
                }
                ctx.stats.ticks += (self.now as i64 - old as i64) as u64;
                match dt {
                    0 => ctx.stats.bump("fault.clock_stall"),
                    1 => ctx.stats.bump("fault.clock_tick"),
                    _ => ctx.stats.bump("fault.clock_jump"),
                }
                ctx.cb_counts.push(0);
            }
            Op::SIns { a, b, exp } => {
                let id = self.next_id;
                self.next_id += 1;
                let v = SegVal { id, exp };
                if exp < self.now {
                    ctx.stats.bump("seg.insert_already_expired");
                } else if exp == self.now {
                    ctx.stats.bump("fault.expire_at_insert");
                }
                let mut twin_ok = false;
                if let Some(tw) = self.twin.as_mut() {
                    let (r2, _) = call(ctx, &cfg, "SegExpTree(twin)", "insert_by_range", "SIns", false, None, None, || tw.insert(a, b, v))?;
                    twin_ok = matches!(r2, Called::Ok(_));
                }
                let tree = &mut self.tree;
                let (_, n) = call(ctx, &cfg, "SegExpTree", "insert_by_range", "SIns", twin_ok, step.panic_at, None, || tree.insert(a, b, v))?;
                ctx.cb_counts.push(n);
                let (blo, bhi) = (self.bucket(a), self.bucket(b));
                self.items.push(SItem { id, exp, blo, bhi, a, b });
                if cfg.has(O_TORN) {
                    self.check_masks(ctx, "SIns")?;
                }
            }
            Op::SBulk { a, b, n, exp } => {
                ctx.stats.bump("seg.bulk_of_copies_in_one_range");
                let first = self.next_id;
                self.next_id += n as u32;
                let mut cb_total = 0u32;
                let mut i0 = 0i32;
                while i0 < n {
                    let i1 = (i0 + 2000).min(n);
                    if let Some(tw) = self.twin.as_mut() {
                        let _ = call(ctx, &cfg, "SegExpTree(twin)", "insert_by_range (bulk)", "SBulk", false, None, None, || {
                            for i in i0..i1 {
                                tw.insert(a, b, SegVal { id: first + i as u32, exp });
                            }
                        })?;
                    }
                    let tree = &mut self.tree;
                    let (_, cb) = call(ctx, &cfg, "SegExpTree", "insert_by_range (bulk)", "SBulk", false, None, None, || {
                        for i in i0..i1 {
                            tree.insert(a, b, SegVal { id: first + i as u32, exp });
                        }
                    })?;
                    cb_total = cb_total.saturating_add(cb);
                    i0 = i1;
                }
                // no crash points inside a bulk build: it only sets the stage
                ctx.cb_counts.push(if cfg.has(O_TORN) { 0 } else { cb_total });
                let (blo, bhi) = (self.bucket(a), self.bucket(b));
                for i in 0..n {
                    self.items.push(SItem { id: first + i as u32, exp, blo, bhi, a, b });
                }
                self.gen.last_range = Some((a, b));
                if cfg.has(O_TORN) {
                    self.check_masks(ctx, "SBulk")?;
                }
            }
            Op::SQuery { a, b, take } => self.step_query(step, a, b, take, ctx)?,
            Op::SClear { restart } => {
                let tree = &mut self.tree;
                let (_, n) = call(ctx, &cfg, "SegExpTree", "clear", "SClear", cfg.has(O_TWIN), None, None, || tree.clear())?;
                ctx.cb_counts.push(n);
                self.items.clear();
                if restart >= 0 && restart < self.now {
                    self.now = restart;
                    ctx.stats.bump("fault.clock_restart_after_clear");
                }
                if cfg.has(O_TWIN) {
                    self.twin = build_ty(cfg.seg_ty, cfg.key_ty, cfg.seg_lo, cfg.seg_hi);
                    self.full_observation(ctx, "SClear")?;
                    ctx.stats.oracle_evals += 1;
                    if !self.tree.copies().is_empty() {
                        return Err(invariant("twin", "SegExpTree", "SClear", "copies stored after clear", format!("{} copies remain after clear", self.tree.copies().len())));
                    }
                }
            }
            _ => return Err(Stop::Inconclusive("operation of another world".into())),
        }
        Ok(Flow::Continue)
    }

    fn gen(&mut self, r: &mut Rng, _ctx: &mut RunCtx, _remaining: usize) -> Op {
        self.gen.generated += 1;
        if self.gen.generated == 1 && self.items.len() >= 64 {
            // the run started with a bulk of copies in one range: values elsewhere (so that buckets
            // after the huge one are occupied), a value expiring exactly at the next query time,
            // the clock moved past the bulk's expiration, then whole-domain queries
            let (lo, hi) = (self.cfg.seg_lo, self.cfg.seg_hi);
            let t = self.now;
            let soon = t.saturating_add(2).min(self.tmax);
            // once more at the time of the last query: nothing that was live then may be missing
            self.gen.pending.push_back(Op::SQuery { a: lo, b: hi, take: -1 });
            self.gen.pending.push_back(Op::SIns { a: hi, b: hi, exp: self.tmax });
            self.gen.pending.push_back(Op::SIns { a: lo, b: lo, exp: soon });
            self.gen.pending.push_back(Op::SIns { a: lo, b: hi, exp: soon });
            if r.chance(1, 2) {
                self.gen.pending.push_back(Op::SQuery { a: lo, b: hi, take: 3 });
            }
            self.gen.pending.push_back(Op::Tick { dt: 2 });
            self.gen.pending.push_back(Op::SQuery { a: lo, b: hi, take: *r.pick(&[-1, -1, -2, -3, -5, -6]) });
            self.gen.pending.push_back(Op::SQuery { a: lo, b: hi, take: -1 });
        }
        if self.gen.forced_clear_at == Some(self.gen.generated - 1) {
            let restart = if r.chance(1, 2) && self.now > 0 { r.range(0, self.now as i64 - 1) as i32 } else { -1 };
            return Op::SClear { restart };
        }
        while let Some(op) = self.gen.pending.pop_front() {
            if self.legal(&op) {
                return op;
            }
        }
        let which = r.weighted(&self.gen.w.clone());
        match which {
            0 => {
                let (a, b) = match self.gen.last_range {
                    Some(lr) if r.below(100) < self.gen.hot_pct => lr,
                    _ => self.pick_range(r),
                };
                self.gen.last_range = Some((a, b));
                let t = self.now;
                let h = self.gen.horizon;
                let exp = match r.weighted(&self.gen.exp_w) {
                    0 => t,
                    1 => t.saturating_add(1),
                    2 => t.saturating_add(r.range(0, h as i64) as i32),
                    3 => t.saturating_sub(r.range(1, 3) as i32),
                    _ => self.tmax,
                };
                let exp = if self.cfg.key_ty == 1 { exp.clamp(0, 255) } else { exp };
                Op::SIns { a, b, exp }
            }
            1 => {
                let (a, b) = if r.chance(1, 5) { (self.cfg.seg_lo, self.cfg.seg_hi) } else { self.pick_range(r) };
                let take = if r.below(100) < self.gen.cancel_pct { r.range(0, 4) as i32 } else { *r.pick(&[-1, -1, -1, -1, -2, -2, -3, -5, -6, -7, -8, -9]) };
                Op::SQuery { a, b, take }
            }
            2 => Op::Tick { dt: r.below(2) as i32 },
            3 => Op::Tick { dt: r.range(2, self.gen.horizon as i64 * 2) as i32 },
            4 => {
                // land on an expiration
                let t = self.now;
                match self.items.iter().map(|it| it.exp).filter(|e| *e > t && *e != self.tmax).min() {
                    Some(e) => Op::Tick { dt: e.saturating_sub(t).saturating_add(*r.pick(&[0, 0, 1])) },
                    None => Op::Tick { dt: 1 },
                }
            }
            _ => {
                let restart = if r.chance(1, 2) && self.now > 0 { r.range(0, self.now as i64 - 1) as i32 } else { -1 };
                Op::SClear { restart }
            }
        }
    }

    fn now(&self) -> i64 {
        self.now as i64
    }
}
