//! Minimal JSON value, writer and parser (std only).

use std::collections::BTreeMap;

#[derive(Clone, Debug, PartialEq)]
pub enum J {
    Null,
    Bool(bool),
    Int(i64),
    Num(f64),
    Str(String),
    Arr(Vec<J>),
    Obj(Vec<(String, J)>),
}

impl J {
    pub fn obj() -> J {
        J::Obj(Vec::new())
    }
    pub fn set(mut self, k: &str, v: J) -> J {
        if let J::Obj(ref mut m) = self {
            if let Some(e) = m.iter_mut().find(|e| e.0 == k) {
                e.1 = v;
            } else {
                m.push((k.to_string(), v));
            }
        }
        self
    }
    pub fn put(&mut self, k: &str, v: J) {
        if let J::Obj(ref mut m) = self {
            if let Some(e) = m.iter_mut().find(|e| e.0 == k) {
                e.1 = v;
            } else {
                m.push((k.to_string(), v));
            }
        }
    }
    pub fn s(x: &str) -> J {
        J::Str(x.to_string())
    }
    pub fn i<T: Into<i64>>(x: T) -> J {
        J::Int(x.into())
    }
    pub fn u(x: u64) -> J {
        J::Int(x.min(i64::MAX as u64) as i64)
    }
    pub fn strs<I: IntoIterator<Item = String>>(it: I) -> J {
        J::Arr(it.into_iter().map(J::Str).collect())
    }
    pub fn from_counts(m: &BTreeMap<String, u64>) -> J {
        J::Obj(m.iter().map(|(k, v)| (k.clone(), J::u(*v))).collect())
    }

    pub fn get(&self, k: &str) -> Option<&J> {
        match self {
            J::Obj(m) => m.iter().find(|e| e.0 == k).map(|e| &e.1),
            _ => None,
        }
    }
    pub fn as_str(&self) -> Option<&str> {
        match self {
            J::Str(s) => Some(s),
            _ => None,
        }
    }
    pub fn as_i64(&self) -> Option<i64> {
        match self {
            J::Int(i) => Some(*i),
            J::Num(f) => Some(*f as i64),
            _ => None,
        }
    }
    pub fn as_arr(&self) -> Option<&Vec<J>> {
        match self {
            J::Arr(a) => Some(a),
            _ => None,
        }
    }
    pub fn as_obj(&self) -> Option<&Vec<(String, J)>> {
        match self {
            J::Obj(a) => Some(a),
            _ => None,
        }
    }

    pub fn to_string(&self) -> String {
        let mut s = String::new();
        self.write(&mut s, 0, false);
        s
    }
    pub fn pretty(&self) -> String {
        let mut s = String::new();
        self.write(&mut s, 0, true);
        s.push('\n');
        s
    }

    fn write(&self, out: &mut String, ind: usize, pretty: bool) {
        match self {
            J::Null => out.push_str("null"),
            J::Bool(b) => out.push_str(if *b { "true" } else { "false" }),
            J::Int(i) => out.push_str(&i.to_string()),
            J::Num(f) => {
                if f.is_finite() {
                    let s = format!("{}", f);
                    out.push_str(&s);
                    if !s.contains('.') && !s.contains('e') {
                        out.push_str(".0");
                    }
                } else {
                    out.push_str("0.0");
                }
            }
            J::Str(s) => write_str(out, s),
            J::Arr(a) => {
                let simple = a.iter().all(|x| !matches!(x, J::Arr(_) | J::Obj(_)));
                out.push('[');
                for (i, x) in a.iter().enumerate() {
                    if i > 0 {
                        out.push(',');
                    }
                    if pretty && !simple {
                        out.push('\n');
                        out.push_str(&" ".repeat(ind + 1));
                    } else if pretty && i > 0 {
                        out.push(' ');
                    }
                    x.write(out, ind + 1, pretty);
                }
                if pretty && !simple && !a.is_empty() {
                    out.push('\n');
                    out.push_str(&" ".repeat(ind));
                }
                out.push(']');
            }
            J::Obj(m) => {
                out.push('{');
                for (i, (k, v)) in m.iter().enumerate() {
                    if i > 0 {
                        out.push(',');
                    }
                    if pretty {
                        out.push('\n');
                        out.push_str(&" ".repeat(ind + 1));
                    }
                    write_str(out, k);
                    out.push(':');
                    if pretty {
                        out.push(' ');
                    }
                    v.write(out, ind + 1, pretty);
                }
                if pretty && !m.is_empty() {
                    out.push('\n');
                    out.push_str(&" ".repeat(ind));
                }
                out.push('}');
            }
        }
    }
}

fn write_str(out: &mut String, s: &str) {
    out.push('"');
    for c in s.chars() {
        match c {
            '"' => out.push_str("\\\""),
            '\\' => out.push_str("\\\\"),
            '\n' => out.push_str("\\n"),
            '\r' => out.push_str("\\r"),
            '\t' => out.push_str("\\t"),
            c if (c as u32) < 0x20 => out.push_str(&format!("\\u{:04x}", c as u32)),
            c => out.push(c),
        }
    }
    out.push('"');
}

pub fn parse(src: &str) -> Result<J, String> {
    let b = src.as_bytes();
    let mut p = 0usize;
    let v = parse_val(b, &mut p)?;
    skip_ws(b, &mut p);
    if p != b.len() {
        return Err(format!("trailing data at {}", p));
    }
    Ok(v)
}

fn skip_ws(b: &[u8], p: &mut usize) {
    while *p < b.len() && (b[*p] == b' ' || b[*p] == b'\n' || b[*p] == b'\r' || b[*p] == b'\t') {
        *p += 1;
    }
}

fn parse_val(b: &[u8], p: &mut usize) -> Result<J, String> {
    skip_ws(b, p);
    if *p >= b.len() {
        return Err("unexpected end".into());
    }
    match b[*p] {
        b'{' => {
            *p += 1;
            let mut m = Vec::new();
            skip_ws(b, p);
            if *p < b.len() && b[*p] == b'}' {
                *p += 1;
                return Ok(J::Obj(m));
            }
            loop {
                skip_ws(b, p);
                let k = match parse_val(b, p)? {
                    J::Str(s) => s,
                    _ => return Err("object key must be a string".into()),
                };
                skip_ws(b, p);
                if *p >= b.len() || b[*p] != b':' {
                    return Err(format!("expected ':' at {}", p));
                }
                *p += 1;
                let v = parse_val(b, p)?;
                m.push((k, v));
                skip_ws(b, p);
                if *p < b.len() && b[*p] == b',' {
                    *p += 1;
                    continue;
                }
                if *p < b.len() && b[*p] == b'}' {
                    *p += 1;
                    return Ok(J::Obj(m));
                }
                return Err(format!("expected ',' or '}}' at {}", p));
            }
        }
        b'[' => {
            *p += 1;
            let mut a = Vec::new();
            skip_ws(b, p);
            if *p < b.len() && b[*p] == b']' {
                *p += 1;
                return Ok(J::Arr(a));
            }
            loop {
                a.push(parse_val(b, p)?);
                skip_ws(b, p);
                if *p < b.len() && b[*p] == b',' {
                    *p += 1;
                    continue;
                }
                if *p < b.len() && b[*p] == b']' {
                    *p += 1;
                    return Ok(J::Arr(a));
                }
                return Err(format!("expected ',' or ']' at {}", p));
            }
        }
        b'"' => {
            *p += 1;
            let mut s = String::new();
            let mut bytes: Vec<u8> = Vec::new();
            while *p < b.len() {
                let c = b[*p];
                *p += 1;
                match c {
                    b'"' => {
                        s.push_str(&String::from_utf8_lossy(&bytes));
                        return Ok(J::Str(s));
                    }
                    b'\\' => {
                        if *p >= b.len() {
                            break;
                        }
                        let e = b[*p];
                        *p += 1;
                        match e {
                            b'n' => bytes.push(b'\n'),
                            b'r' => bytes.push(b'\r'),
                            b't' => bytes.push(b'\t'),
                            b'b' => bytes.push(8),
                            b'f' => bytes.push(12),
                            b'u' => {
                                if *p + 4 > b.len() {
                                    return Err("bad \\u".into());
                                }
                                let h = std::str::from_utf8(&b[*p..*p + 4]).map_err(|e| e.to_string())?;
                                let cp = u32::from_str_radix(h, 16).map_err(|e| e.to_string())?;
                                *p += 4;
                                let ch = char::from_u32(cp).unwrap_or('?');
                                let mut buf = [0u8; 4];
                                bytes.extend_from_slice(ch.encode_utf8(&mut buf).as_bytes());
                            }
                            other => bytes.push(other),
                        }
                    }
                    c => bytes.push(c),
                }
            }
            Err("unterminated string".into())
        }
        b't' if b[*p..].starts_with(b"true") => {
            *p += 4;
            Ok(J::Bool(true))
        }
        b'f' if b[*p..].starts_with(b"false") => {
            *p += 5;
            Ok(J::Bool(false))
        }
        b'n' if b[*p..].starts_with(b"null") => {
            *p += 4;
            Ok(J::Null)
        }
        _ => {
            let st = *p;
            while *p < b.len() && (b[*p] == b'-' || b[*p] == b'+' || b[*p] == b'.' || b[*p] == b'e' || b[*p] == b'E' || b[*p].is_ascii_digit()) {
                *p += 1;
            }
            let t = std::str::from_utf8(&b[st..*p]).map_err(|e| e.to_string())?;
            if t.is_empty() {
                return Err(format!("unexpected byte at {}", st));
            }
            if let Ok(i) = t.parse::<i64>() {
                Ok(J::Int(i))
            } else {
                t.parse::<f64>().map(J::Num).map_err(|e| format!("{} at {}", e, st))
            }
        }
    }
}
