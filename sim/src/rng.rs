//! The one PRNG of the simulator: xoshiro256** seeded through splitmix64.
//! Every decision of a run is drawn from one instance of this generator.

#[derive(Clone)]
pub struct Rng {
    s: [u64; 4],
}

#[inline]
pub fn splitmix64(state: &mut u64) -> u64 {
    *state = state.wrapping_add(0x9E37_79B9_7F4A_7C15);
    let mut z = *state;
    z = (z ^ (z >> 30)).wrapping_mul(0xBF58_476D_1CE4_E5B9);
    z = (z ^ (z >> 27)).wrapping_mul(0x94D0_49BB_1331_11EB);
    z ^ (z >> 31)
}

/// Deterministic mixing of (master seed, stream, index) into a run seed.
pub fn mix(a: u64, b: u64, c: u64) -> u64 {
    let mut st = a ^ 0x51_7C_C1_B7_27_22_0A_95;
    let x = splitmix64(&mut st);
    st ^= b.wrapping_mul(0xD6E8_FEB8_6659_FD93);
    let y = splitmix64(&mut st);
    st ^= c.wrapping_mul(0xA076_1D64_78BD_642F);
    let z = splitmix64(&mut st);
    x ^ y.rotate_left(21) ^ z.rotate_left(42)
}

pub fn str_stream(s: &str) -> u64 {
    let mut h: u64 = 0xcbf29ce484222325;
    for b in s.bytes() {
        h ^= b as u64;
        h = h.wrapping_mul(0x100000001b3);
    }
    h
}

impl Rng {
    pub fn new(seed: u64) -> Self {
        let mut st = seed;
        let s = [
            splitmix64(&mut st),
            splitmix64(&mut st),
            splitmix64(&mut st),
            splitmix64(&mut st),
        ];
        Rng { s }
    }

    #[inline]
    pub fn next_u64(&mut self) -> u64 {
        let result = self.s[1].wrapping_mul(5).rotate_left(7).wrapping_mul(9);
        let t = self.s[1] << 17;
        self.s[2] ^= self.s[0];
        self.s[3] ^= self.s[1];
        self.s[1] ^= self.s[2];
        self.s[0] ^= self.s[3];
        self.s[2] ^= t;
        self.s[3] = self.s[3].rotate_left(45);
        result
    }

    /// Uniform in 0..n (n > 0).
    #[inline]
    pub fn below(&mut self, n: u64) -> u64 {
        debug_assert!(n > 0);
        // multiply-shift; bias is irrelevant for simulation purposes
        ((self.next_u64() as u128 * n as u128) >> 64) as u64
    }

    /// Uniform in lo..=hi.
    #[inline]
    pub fn range(&mut self, lo: i64, hi: i64) -> i64 {
        debug_assert!(lo <= hi);
        let span = (hi as i128 - lo as i128 + 1) as u128;
        if span > u64::MAX as u128 {
            return self.next_u64() as i64;
        }
        (lo as i128 + self.below(span as u64) as i128) as i64
    }

    #[inline]
    pub fn chance(&mut self, num: u64, den: u64) -> bool {
        self.below(den) < num
    }

    #[inline]
    pub fn pick<'a, T>(&mut self, xs: &'a [T]) -> &'a T {
        &xs[self.below(xs.len() as u64) as usize]
    }

    /// Index drawn proportionally to the weights (at least one weight > 0).
    pub fn weighted(&mut self, w: &[u32]) -> usize {
        let total: u64 = w.iter().map(|x| *x as u64).sum();
        debug_assert!(total > 0);
        let mut r = self.below(total);
        for (i, x) in w.iter().enumerate() {
            if r < *x as u64 {
                return i;
            }
            r -= *x as u64;
        }
        w.len() - 1
    }
}
