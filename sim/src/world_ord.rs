//! ORD world: MapTree / MapList (MAP) or SetTree / SetList (SET), real code,
//! against a BTreeMap reference model. Handles are opaque: only what they
//! designate is compared.

use crate::core::*;
use crate::instr::{closure_called, IKey, Rec, Tracked};
use crate::op::{Flow, Op, Step};
use crate::rng::Rng;
use crate::snap::{self, Slot, Snap};
use i_tree::map::list::MapList;
use i_tree::map::sort::MapCollection;
use i_tree::map::tree::MapTree;
use i_tree::set::list::SetList;
use i_tree::set::sort::SetCollection;
use i_tree::set::tree::SetTree;
use i_tree::EMPTY_REF;
use std::cmp::Ordering;
use std::collections::BTreeMap;

/// What a handle designates: (entry key as far as the collection exposes it, payload key, payload version).
pub type Seen = (i32, i32, u32);

pub trait OColl {
    fn name(&self) -> &'static str;
    fn is_list(&self) -> bool;
    fn has_neighbours(&self) -> bool;
    fn insert(&mut self, k: i32, ver: u32);
    fn delete(&mut self, k: i32);
    fn delete_by_index(&mut self, h: u32);
    fn get(&self, k: i32) -> Option<Seen>;
    fn read(&self, h: u32) -> Seen;
    fn write(&mut self, h: u32, ver: u32);
    fn first(&self, p: i32) -> u32;
    fn first_by(&self, p: i32, fl: u8) -> u32;
    fn next(&self, h: u32) -> u32;
    fn prev(&self, h: u32) -> u32;
    fn is_empty(&self) -> bool;
    fn clear(&mut self);
    fn snapshot(&self) -> Option<Snap>;
    fn stored_keys(&self) -> Vec<i32>;
    fn fresh(&self, cap: usize) -> Box<dyn OColl>;
}

fn cmp_by(x: i32, p: i32, fl: u8) -> Ordering {
    closure_called();
    match fl {
        0 => IKey(x).cmp(&IKey(p)),
        _ => {
            if x <= p {
                Ordering::Less
            } else {
                Ordering::Greater
            }
        }
    }
}

type MT = MapTree<IKey, Tracked>;
type ML = MapList<IKey, Tracked>;
type ST = SetTree<IKey, Rec>;
type SL = SetList<Rec>;

fn snap_from<T>(v: i_tree::verif::VerifTree<T>, key: impl Fn(&T) -> i32) -> Snap {
    Snap {
        root: v.root,
        slots: v.slots.iter().map(|s| Slot { parent: s.parent, left: s.left, right: s.right, red: s.red, key: key(&s.item), aux: 0 }).collect(),
        unused: v.unused,
        unused_cap: v.unused_capacity,
    }
}

macro_rules! map_impl {
    ($ty:ty, $name:expr, $list:expr) => {
        impl OColl for $ty {
            fn name(&self) -> &'static str {
                $name
            }
            fn is_list(&self) -> bool {
                $list
            }
            fn has_neighbours(&self) -> bool {
                false
            }
            fn insert(&mut self, k: i32, ver: u32) {
                MapCollection::insert(self, IKey(k), Tracked::new(k, ver))
            }
            fn delete(&mut self, k: i32) {
                MapCollection::delete(self, IKey(k))
            }
            fn delete_by_index(&mut self, h: u32) {
                MapCollection::delete_by_index(self, h)
            }
            fn get(&self, k: i32) -> Option<Seen> {
                MapCollection::get_value(self, IKey(k)).map(|t| (t.key(), t.key(), t.ver()))
            }
            fn read(&self, h: u32) -> Seen {
                let t = MapCollection::value_by_index(self, h);
                (t.key(), t.key(), t.ver())
            }
            fn write(&mut self, h: u32, ver: u32) {
                MapCollection::value_by_index_mut(self, h).set_ver(ver);
            }
            fn first(&self, p: i32) -> u32 {
                MapCollection::first_index_less(self, IKey(p))
            }
            fn first_by(&self, p: i32, fl: u8) -> u32 {
                MapCollection::first_index_less_by(self, |x: IKey| cmp_by(x.0, p, fl))
            }
            fn next(&self, _h: u32) -> u32 {
                unreachable!()
            }
            fn prev(&self, _h: u32) -> u32 {
                unreachable!()
            }
            fn is_empty(&self) -> bool {
                MapCollection::is_empty(self)
            }
            fn clear(&mut self) {
                MapCollection::clear(self)
            }
            fn snapshot(&self) -> Option<Snap> {
                map_snapshot(self)
            }
            fn stored_keys(&self) -> Vec<i32> {
                map_keys(self)
            }
            fn fresh(&self, cap: usize) -> Box<dyn OColl> {
                Box::new(<$ty>::new(cap))
            }
        }
    };
}

trait MapAux {
    fn aux_snapshot(&self) -> Option<Snap>;
    fn aux_keys(&self) -> Vec<i32>;
}
impl MapAux for MT {
    fn aux_snapshot(&self) -> Option<Snap> {
        Some(snap_from(self.verif_snapshot(), |k: &IKey| k.0))
    }
    fn aux_keys(&self) -> Vec<i32> {
        let s = self.aux_snapshot().unwrap();
        inorder_keys(&s)
    }
}
impl MapAux for ML {
    fn aux_snapshot(&self) -> Option<Snap> {
        None
    }
    fn aux_keys(&self) -> Vec<i32> {
        self.verif_keys().iter().map(|k| k.0).collect()
    }
}
fn map_snapshot<T: MapAux>(t: &T) -> Option<Snap> {
    t.aux_snapshot()
}
fn map_keys<T: MapAux>(t: &T) -> Vec<i32> {
    t.aux_keys()
}

/// In-order keys of a snapshot, tolerant of broken structure (bounded walk).
pub fn inorder_keys(s: &Snap) -> Vec<i32> {
    let mut out = Vec::new();
    let mut stack: Vec<(u32, bool)> = Vec::new();
    if s.root != snap::E {
        stack.push((s.root, false));
    }
    let mut guard = 0usize;
    while let Some((i, done)) = stack.pop() {
        guard += 1;
        if guard > 4 * s.slots.len() + 8 || i as usize >= s.slots.len() {
            break;
        }
        let n = &s.slots[i as usize];
        if done {
            out.push(n.key);
        } else {
            if n.right != snap::E {
                stack.push((n.right, false));
            }
            stack.push((i, true));
            if n.left != snap::E {
                stack.push((n.left, false));
            }
        }
    }
    out
}

map_impl!(MT, "MapTree", false);
map_impl!(ML, "MapList", true);

macro_rules! set_impl {
    ($ty:ty, $name:expr, $list:expr) => {
        impl OColl for $ty {
            fn name(&self) -> &'static str {
                $name
            }
            fn is_list(&self) -> bool {
                $list
            }
            fn has_neighbours(&self) -> bool {
                true
            }
            fn insert(&mut self, k: i32, ver: u32) {
                SetCollection::<IKey, Rec>::insert(self, Rec { key: IKey(k), payload: Tracked::new(k, ver) })
            }
            fn delete(&mut self, k: i32) {
                SetCollection::<IKey, Rec>::delete(self, &IKey(k))
            }
            fn delete_by_index(&mut self, h: u32) {
                SetCollection::<IKey, Rec>::delete_by_index(self, h)
            }
            fn get(&self, k: i32) -> Option<Seen> {
                SetCollection::<IKey, Rec>::get_value(self, &IKey(k)).map(|r| (r.key.0, r.payload.key(), r.payload.ver()))
            }
            fn read(&self, h: u32) -> Seen {
                let r = SetCollection::<IKey, Rec>::value_by_index(self, h);
                (r.key.0, r.payload.key(), r.payload.ver())
            }
            fn write(&mut self, h: u32, ver: u32) {
                SetCollection::<IKey, Rec>::value_by_index_mut(self, h).payload.set_ver(ver);
            }
            fn first(&self, p: i32) -> u32 {
                SetCollection::<IKey, Rec>::first_index_less(self, &IKey(p))
            }
            fn first_by(&self, p: i32, fl: u8) -> u32 {
                SetCollection::<IKey, Rec>::first_index_less_by(self, |x: &IKey| cmp_by(x.0, p, fl))
            }
            fn next(&self, h: u32) -> u32 {
                SetCollection::<IKey, Rec>::index_after(self, h)
            }
            fn prev(&self, h: u32) -> u32 {
                SetCollection::<IKey, Rec>::index_before(self, h)
            }
            fn is_empty(&self) -> bool {
                SetCollection::<IKey, Rec>::is_empty(self)
            }
            fn clear(&mut self) {
                SetCollection::<IKey, Rec>::clear(self)
            }
            fn snapshot(&self) -> Option<Snap> {
                self.aux_snapshot()
            }
            fn stored_keys(&self) -> Vec<i32> {
                self.aux_keys()
            }
            fn fresh(&self, cap: usize) -> Box<dyn OColl> {
                Box::new(<$ty>::new(cap))
            }
        }
    };
}

impl MapAux for ST {
    fn aux_snapshot(&self) -> Option<Snap> {
        Some(snap_from(self.verif_snapshot(), |r: &Rec| r.key.0))
    }
    fn aux_keys(&self) -> Vec<i32> {
        inorder_keys(&self.aux_snapshot().unwrap())
    }
}
impl MapAux for SL {
    fn aux_snapshot(&self) -> Option<Snap> {
        None
    }
    fn aux_keys(&self) -> Vec<i32> {
        self.verif_values().iter().map(|r| r.key.0).collect()
    }
}

set_impl!(ST, "SetTree", false);
set_impl!(SL, "SetList", true);

// ---- plain instantiation: MapTree<i32, u32> / MapList<i32, u32> / SetTree<i32, i32> / SetList<i32> ----
// Small, uninstrumented types (an 8-byte map entry, a 4-byte set value using the crate's own
// `KeyValue<i32> for i32`). The map value packs (key offset, version) so that a value that ends
// up under the wrong key is still visible; a plain set value *is* its key, so the version of a
// set entry is unobservable (VER_ANY) and expectations are normalised accordingly.

pub const VER_ANY: u32 = u32::MAX - 2;

type PMT = MapTree<i32, u32>;
type PML = MapList<i32, u32>;
type PST = SetTree<i32, i32>;
type PSL = SetList<i32>;

/// "The value does not say which key it was inserted for" (plain map over a large universe:
/// the 32-bit value holds the unique version only, which still identifies the insertion).
pub const KEY_ANY: i32 = i32::MIN + 7;

thread_local! {
    /// key_lo of the current plain run (keys are packed relative to it)
    static PLAIN_LO: std::cell::Cell<i32> = const { std::cell::Cell::new(0) };
    /// universe too large for packing the key offset into the value
    static PLAIN_WIDE: std::cell::Cell<bool> = const { std::cell::Cell::new(false) };
}

#[inline]
fn pack(k: i32, ver: u32) -> u32 {
    if PLAIN_WIDE.with(|w| w.get()) {
        return ver;
    }
    let off = (k.wrapping_sub(PLAIN_LO.with(|l| l.get())).wrapping_add(2)) as u32 & 0xFFF;
    (off << 20) | (ver & 0xF_FFFF)
}
#[inline]
fn unpack(v: &u32) -> (i32, u32) {
    let v = *v;
    if PLAIN_WIDE.with(|w| w.get()) {
        return (KEY_ANY, v);
    }
    let off = (v >> 20) as i32;
    (off.wrapping_sub(2).wrapping_add(PLAIN_LO.with(|l| l.get())), v & 0xF_FFFF)
}
fn cmp_plain(x: i32, p: i32, fl: u8) -> Ordering {
    match fl {
        0 => x.cmp(&p),
        _ => {
            if x <= p {
                Ordering::Less
            } else {
                Ordering::Greater
            }
        }
    }
}

macro_rules! plain_map_impl {
    ($ty:ty, $name:expr, $list:expr, $pack:ident, $unpack:ident) => {
        impl OColl for $ty {
            fn name(&self) -> &'static str {
                $name
            }
            fn is_list(&self) -> bool {
                $list
            }
            fn has_neighbours(&self) -> bool {
                false
            }
            fn insert(&mut self, k: i32, ver: u32) {
                MapCollection::insert(self, k, $pack(k, ver))
            }
            fn delete(&mut self, k: i32) {
                MapCollection::delete(self, k)
            }
            fn delete_by_index(&mut self, h: u32) {
                MapCollection::delete_by_index(self, h)
            }
            fn get(&self, k: i32) -> Option<Seen> {
                MapCollection::get_value(self, k).map(|v| {
                    let (pk, ver) = $unpack(v);
                    (pk, pk, ver)
                })
            }
            fn read(&self, h: u32) -> Seen {
                let (pk, ver) = $unpack(MapCollection::value_by_index(self, h));
                (pk, pk, ver)
            }
            fn write(&mut self, h: u32, ver: u32) {
                let v = MapCollection::value_by_index_mut(self, h);
                let (pk, _) = $unpack(v);
                *v = $pack(pk, ver);
            }
            fn first(&self, p: i32) -> u32 {
                MapCollection::first_index_less(self, p)
            }
            fn first_by(&self, p: i32, fl: u8) -> u32 {
                MapCollection::first_index_less_by(self, |x: i32| cmp_plain(x, p, fl))
            }
            fn next(&self, _h: u32) -> u32 {
                unreachable!()
            }
            fn prev(&self, _h: u32) -> u32 {
                unreachable!()
            }
            fn is_empty(&self) -> bool {
                MapCollection::is_empty(self)
            }
            fn clear(&mut self) {
                MapCollection::clear(self)
            }
            fn snapshot(&self) -> Option<Snap> {
                map_snapshot(self)
            }
            fn stored_keys(&self) -> Vec<i32> {
                map_keys(self)
            }
            fn fresh(&self, cap: usize) -> Box<dyn OColl> {
                Box::new(<$ty>::new(cap))
            }
        }
    };
}

impl MapAux for PMT {
    fn aux_snapshot(&self) -> Option<Snap> {
        Some(snap_from(self.verif_snapshot(), |k: &i32| *k))
    }
    fn aux_keys(&self) -> Vec<i32> {
        inorder_keys(&self.aux_snapshot().unwrap())
    }
}
impl MapAux for PML {
    fn aux_snapshot(&self) -> Option<Snap> {
        None
    }
    fn aux_keys(&self) -> Vec<i32> {
        self.verif_keys()
    }
}
plain_map_impl!(PMT, "MapTree", false, pack, unpack);
plain_map_impl!(PML, "MapList", true, pack, unpack);

// ---- fat instantiation: 272-byte map values / set values (uninstrumented) -----------------------

#[derive(Clone, Debug)]
pub struct Fat {
    pub key: i32,
    pub ver: u32,
    pub pad: [u64; 33],
}
impl Default for Fat {
    fn default() -> Self {
        Fat { key: i32::MIN, ver: 0, pad: [0; 33] }
    }
}
impl i_tree::set::sort::KeyValue<i32> for Fat {
    #[inline]
    fn key(&self) -> &i32 {
        &self.key
    }
}
#[inline]
fn fat_pack(k: i32, ver: u32) -> Fat {
    Fat { key: k, ver, pad: [((k as u32 as u64) << 32) | ver as u64; 33] }
}
#[inline]
fn fat_unpack(v: &Fat) -> (i32, u32) {
    // a value whose padding no longer matches its head was torn or mixed up
    if v.pad[0] != (((v.key as u32 as u64) << 32) | v.ver as u64) || v.pad[32] != v.pad[0] {
        return (i32::MIN + 3, v.ver);
    }
    (v.key, v.ver)
}

type FMT = MapTree<i32, Fat>;
type FML = MapList<i32, Fat>;
type FST = SetTree<i32, Fat>;
type FSL = SetList<Fat>;

impl MapAux for FMT {
    fn aux_snapshot(&self) -> Option<Snap> {
        Some(snap_from(self.verif_snapshot(), |k: &i32| *k))
    }
    fn aux_keys(&self) -> Vec<i32> {
        inorder_keys(&self.aux_snapshot().unwrap())
    }
}
impl MapAux for FML {
    fn aux_snapshot(&self) -> Option<Snap> {
        None
    }
    fn aux_keys(&self) -> Vec<i32> {
        self.verif_keys()
    }
}
plain_map_impl!(FMT, "MapTree", false, fat_pack, fat_unpack);
plain_map_impl!(FML, "MapList", true, fat_pack, fat_unpack);

macro_rules! fat_set_impl {
    ($ty:ty, $name:expr, $list:expr) => {
        impl OColl for $ty {
            fn name(&self) -> &'static str {
                $name
            }
            fn is_list(&self) -> bool {
                $list
            }
            fn has_neighbours(&self) -> bool {
                true
            }
            fn insert(&mut self, k: i32, ver: u32) {
                SetCollection::<i32, Fat>::insert(self, fat_pack(k, ver))
            }
            fn delete(&mut self, k: i32) {
                SetCollection::<i32, Fat>::delete(self, &k)
            }
            fn delete_by_index(&mut self, h: u32) {
                SetCollection::<i32, Fat>::delete_by_index(self, h)
            }
            fn get(&self, k: i32) -> Option<Seen> {
                SetCollection::<i32, Fat>::get_value(self, &k).map(|v| {
                    let (pk, ver) = fat_unpack(v);
                    (v.key, pk, ver)
                })
            }
            fn read(&self, h: u32) -> Seen {
                let v = SetCollection::<i32, Fat>::value_by_index(self, h);
                let (pk, ver) = fat_unpack(v);
                (v.key, pk, ver)
            }
            fn write(&mut self, h: u32, ver: u32) {
                let v = SetCollection::<i32, Fat>::value_by_index_mut(self, h);
                let k = v.key;
                *v = fat_pack(k, ver);
            }
            fn first(&self, p: i32) -> u32 {
                SetCollection::<i32, Fat>::first_index_less(self, &p)
            }
            fn first_by(&self, p: i32, fl: u8) -> u32 {
                SetCollection::<i32, Fat>::first_index_less_by(self, |x: &i32| cmp_plain(*x, p, fl))
            }
            fn next(&self, h: u32) -> u32 {
                SetCollection::<i32, Fat>::index_after(self, h)
            }
            fn prev(&self, h: u32) -> u32 {
                SetCollection::<i32, Fat>::index_before(self, h)
            }
            fn is_empty(&self) -> bool {
                SetCollection::<i32, Fat>::is_empty(self)
            }
            fn clear(&mut self) {
                SetCollection::<i32, Fat>::clear(self)
            }
            fn snapshot(&self) -> Option<Snap> {
                self.aux_snapshot()
            }
            fn stored_keys(&self) -> Vec<i32> {
                self.aux_keys()
            }
            fn fresh(&self, cap: usize) -> Box<dyn OColl> {
                Box::new(<$ty>::new(cap))
            }
        }
    };
}
impl MapAux for FST {
    fn aux_snapshot(&self) -> Option<Snap> {
        Some(snap_from(self.verif_snapshot(), |v: &Fat| v.key))
    }
    fn aux_keys(&self) -> Vec<i32> {
        inorder_keys(&self.aux_snapshot().unwrap())
    }
}
impl MapAux for FSL {
    fn aux_snapshot(&self) -> Option<Snap> {
        None
    }
    fn aux_keys(&self) -> Vec<i32> {
        self.verif_values().iter().map(|v| v.key).collect()
    }
}
fat_set_impl!(FST, "SetTree", false);
fat_set_impl!(FSL, "SetList", true);

macro_rules! plain_set_impl {
    ($ty:ty, $name:expr, $list:expr) => {
        impl OColl for $ty {
            fn name(&self) -> &'static str {
                $name
            }
            fn is_list(&self) -> bool {
                $list
            }
            fn has_neighbours(&self) -> bool {
                true
            }
            fn insert(&mut self, k: i32, _ver: u32) {
                SetCollection::<i32, i32>::insert(self, k)
            }
            fn delete(&mut self, k: i32) {
                SetCollection::<i32, i32>::delete(self, &k)
            }
            fn delete_by_index(&mut self, h: u32) {
                SetCollection::<i32, i32>::delete_by_index(self, h)
            }
            fn get(&self, k: i32) -> Option<Seen> {
                SetCollection::<i32, i32>::get_value(self, &k).map(|v| (*v, *v, VER_ANY))
            }
            fn read(&self, h: u32) -> Seen {
                let v = *SetCollection::<i32, i32>::value_by_index(self, h);
                (v, v, VER_ANY)
            }
            fn write(&mut self, h: u32, _ver: u32) {
                // the value is the key: write it back unchanged
                let v = SetCollection::<i32, i32>::value_by_index_mut(self, h);
                let same = *v;
                *v = same;
            }
            fn first(&self, p: i32) -> u32 {
                SetCollection::<i32, i32>::first_index_less(self, &p)
            }
            fn first_by(&self, p: i32, fl: u8) -> u32 {
                SetCollection::<i32, i32>::first_index_less_by(self, |x: &i32| cmp_plain(*x, p, fl))
            }
            fn next(&self, h: u32) -> u32 {
                SetCollection::<i32, i32>::index_after(self, h)
            }
            fn prev(&self, h: u32) -> u32 {
                SetCollection::<i32, i32>::index_before(self, h)
            }
            fn is_empty(&self) -> bool {
                SetCollection::<i32, i32>::is_empty(self)
            }
            fn clear(&mut self) {
                SetCollection::<i32, i32>::clear(self)
            }
            fn snapshot(&self) -> Option<Snap> {
                self.aux_snapshot()
            }
            fn stored_keys(&self) -> Vec<i32> {
                self.aux_keys()
            }
            fn fresh(&self, cap: usize) -> Box<dyn OColl> {
                Box::new(<$ty>::new(cap))
            }
        }
    };
}

impl MapAux for PST {
    fn aux_snapshot(&self) -> Option<Snap> {
        Some(snap_from(self.verif_snapshot(), |v: &i32| *v))
    }
    fn aux_keys(&self) -> Vec<i32> {
        inorder_keys(&self.aux_snapshot().unwrap())
    }
}
impl MapAux for PSL {
    fn aux_snapshot(&self) -> Option<Snap> {
        None
    }
    fn aux_keys(&self) -> Vec<i32> {
        self.verif_values()
    }
}
plain_set_impl!(PST, "SetTree", false);
plain_set_impl!(PSL, "SetList", true);

#[derive(Clone, Debug)]
pub struct OrdGen {
    pub w: [u32; 14],
    pub key_pattern: u8,
    pub del_w: [u32; 8],
    pub max_pop: usize,
    pub last_key: i32,
    pub zig: bool,
    pub order: Vec<i32>, // insertion order of present keys (for newest / oldest)
    pub walk_after_mut: bool,
    /// "fill" phase: insert until this many entries are stored (arena exactly full / just grown)
    pub fill_target: Option<usize>,
    pub fill_pct: u64,
    pub clear_after_fill: bool,
    pub pending: std::collections::VecDeque<Op>,
    pub forced_clear_at: Option<usize>,
    pub generated: usize,
    pub bulk_followup_done: bool,
}

const W_INS: usize = 0;
const W_DEL: usize = 1;
const W_GET: usize = 2;
const W_FIRST: usize = 3;
const W_HREAD: usize = 4;
const W_HWRITE: usize = 5;
const W_HDEL: usize = 6;
const W_HOLD: usize = 7;
const W_NEXT: usize = 8;
const W_PREV: usize = 9;
const W_WALK: usize = 10;
const W_EMPTY: usize = 11;
const W_CLEAR: usize = 12;
const W_DEL_ABSENT: usize = 13;

pub struct OrdWorld {
    pub cfg: Cfg,
    is_set: bool,
    colls: Vec<Box<dyn OColl>>,
    twins: Vec<Option<Box<dyn OColl>>>,
    pub model: BTreeMap<i32, u32>,
    next_ver: u32,
    peak: Vec<usize>,
    /// held handles: key -> handle per collection (C17)
    held: Vec<(i32, Vec<u32>)>,
    /// keys an interrupted operation was about to change: always part of the observation window
    touched: Vec<i32>,
    pub gen: OrdGen,
}

fn twin_name(n: &'static str) -> &'static str {
    match n {
        "MapTree" => "MapTree(twin)",
        "MapList" => "MapList(twin)",
        "SetTree" => "SetTree(twin)",
        _ => "SetList(twin)",
    }
}

fn brief(v: &[Option<Seen>]) -> Vec<Option<Seen>> {
    v.iter().take(14).cloned().collect()
}

fn tag_of(msg: &str) -> String {
    strip_numbers(msg).replace("left", "side").replace("right", "side")
}

impl OrdWorld {
    pub fn new(cfg: Cfg, rng: Option<&mut Rng>) -> OrdWorld {
        let is_set = cfg.world == WorldKind::Set;
        let mut colls: Vec<Box<dyn OColl>> = Vec::new();
        let plain = cfg.key_ty == 1;
        if plain {
            PLAIN_LO.with(|l| l.set(cfg.key_lo));
            PLAIN_WIDE.with(|w| w.set(cfg.universe > 1024));
        }
        if cfg.colls & C_TREE != 0 {
            colls.push(match (is_set, cfg.key_ty) {
                (true, 1) => Box::new(PST::new(cfg.cap)),
                (false, 1) => Box::new(PMT::new(cfg.cap)),
                (true, 2) => Box::new(FST::new(cfg.cap)),
                (false, 2) => Box::new(FMT::new(cfg.cap)),
                (true, _) => Box::new(ST::new(cfg.cap)),
                (false, _) => Box::new(MT::new(cfg.cap)),
            });
        }
        if cfg.colls & C_LIST != 0 {
            colls.push(match (is_set, cfg.key_ty) {
                (true, 1) => Box::new(PSL::new(cfg.cap)),
                (false, 1) => Box::new(PML::new(cfg.cap)),
                (true, 2) => Box::new(FSL::new(cfg.cap)),
                (false, 2) => Box::new(FML::new(cfg.cap)),
                (true, _) => Box::new(SL::new(cfg.cap)),
                (false, _) => Box::new(ML::new(cfg.cap)),
            });
        }
        let n = colls.len();
        let gen = match rng {
            Some(r) => Self::draw_gen(&cfg, r),
            None => Self::default_gen(),
        };
        OrdWorld { cfg, is_set, colls, twins: (0..n).map(|_| None).collect(), model: BTreeMap::new(), next_ver: 1, peak: vec![0; n], held: Vec::new(), touched: Vec::new(), gen }
    }

    fn default_gen() -> OrdGen {
        OrdGen { w: [10, 5, 5, 2, 1, 1, 1, 0, 0, 0, 0, 1, 0, 1], key_pattern: 0, del_w: [1; 8], max_pop: 32, last_key: 0, zig: false, order: Vec::new(), walk_after_mut: false, fill_target: None, fill_pct: 0, clear_after_fill: false, pending: std::collections::VecDeque::new(), forced_clear_at: None, generated: 0, bulk_followup_done: false }
    }

    fn draw_gen(cfg: &Cfg, r: &mut Rng) -> OrdGen {
        let mut g = Self::default_gen();
        let pal: [u32; 6] = [0, 1, 2, 5, 10, 20];
        for i in 0..14 {
            g.w[i] = *r.pick(&pal);
        }
        g.w[W_INS] = *r.pick(&[5, 10, 20, 30]);
        g.w[W_DEL] = *r.pick(&[0, 2, 5, 10, 20, 30]);
        g.w[W_CLEAR] = *r.pick(&[0, 0, 0, 1, 1, 2]);
        g.w[W_EMPTY] = *r.pick(&[0, 1, 2]);
        g.w[W_DEL_ABSENT] = *r.pick(&[0, 1, 2]);
        let is_set = cfg.world == WorldKind::Set;
        let any = cfg.has(O_CRASH | O_TWIN | O_TORN);
        if !is_set || !(cfg.has(O_ONEIGH) || any) {
            g.w[W_NEXT] = 0;
            g.w[W_PREV] = 0;
            g.w[W_WALK] = 0;
        } else if cfg.has(O_ONEIGH) {
            g.w[W_NEXT] = g.w[W_NEXT].max(5);
            g.w[W_PREV] = g.w[W_PREV].max(5);
            g.w[W_WALK] = g.w[W_WALK].max(2);
            g.walk_after_mut = r.chance(1, 2);
        }
        if !(cfg.has(O_OHOLD) || any) {
            g.w[W_HOLD] = 0;
        } else if cfg.has(O_OHOLD) {
            g.w[W_HOLD] = g.w[W_HOLD].max(10);
            g.w[W_DEL] = g.w[W_DEL].min(2);
            // the statement quantifies over insertions and lookups only
            g.w[W_HDEL] = 0;
            g.w[W_HWRITE] = 0;
            g.w[W_CLEAR] = g.w[W_CLEAR].min(1);
        }
        if !(cfg.has(O_OFIRST) || any) {
            g.w[W_FIRST] = g.w[W_FIRST].min(1);
        } else if cfg.has(O_OFIRST) {
            g.w[W_FIRST] = g.w[W_FIRST].max(5);
        }
        if !(cfg.has(O_OHANDLE) || cfg.has(O_STRUCT | O_ARENA) || any) {
            g.w[W_HREAD] = 0;
            g.w[W_HWRITE] = g.w[W_HWRITE].min(1);
            g.w[W_HDEL] = g.w[W_HDEL].min(1);
        } else if cfg.has(O_OHANDLE) {
            g.w[W_HREAD] = g.w[W_HREAD].max(2);
            g.w[W_HWRITE] = g.w[W_HWRITE].max(2);
            g.w[W_HDEL] = g.w[W_HDEL].max(2);
        }
        if cfg.has(O_OGET) {
            g.w[W_GET] = g.w[W_GET].max(2);
        }
        if cfg.has(O_TWIN) {
            g.w[W_CLEAR] = *r.pick(&[1, 2, 3, 5]);
        }
        g.key_pattern = r.below(6) as u8;
        for i in 0..8 {
            g.del_w[i] = *r.pick(&[0, 1, 2, 4]);
        }
        if g.del_w.iter().all(|x| *x == 0) {
            g.del_w[4] = 1;
        }
        g.max_pop = *r.pick(&[2, 4, 8, 16, 32, 64, 256, 100000]);
        g.fill_pct = *r.pick(&[0, 0, 25, 50, 100]);
        if r.below(100) < g.fill_pct / 2 {
            g.fill_target = Some(Self::draw_fill_target(cfg, r));
            g.clear_after_fill = r.chance(1, 3);
        }
        if cfg.has(O_TWIN) {
            g.forced_clear_at = Some(r.below(12) as usize);
        }
        if cfg.cap > 1_000_000 {
            // a huge arena: a few insertions, a clear, then the rest of the short history
            g.forced_clear_at = Some(2 + r.below(4) as usize);
            g.w[W_CLEAR] = g.w[W_CLEAR].min(1);
            g.fill_target = None;
            g.fill_pct = 0;
            g.w[W_INS] = 20;
            g.w[W_DEL] = g.w[W_DEL].max(10);
            g.max_pop = 64;
        }
        g.last_key = cfg.key_lo + r.below(cfg.universe.max(1) as u64) as i32;
        g
    }

    /// An unresolved fill target: 1_000_000 + variant. It is turned into an absolute number
    /// of stored entries when the fill phase starts, relative to the arena size AT THAT TIME
    /// (after earlier growth, after a clear): two short of full, one short, exactly full,
    /// just grown, grown twice.
    fn draw_fill_target(_cfg: &Cfg, r: &mut Rng) -> usize {
        1_000_000 + r.below(7) as usize
    }

    fn resolve_fill_target(&self, unresolved: usize) -> usize {
        let slots = self.arena_slots_now();
        let t = match unresolved - 1_000_000 {
            0 => slots.saturating_sub(3),
            1 | 2 => slots.saturating_sub(2),
            3 => slots.saturating_sub(1),
            4 => slots,
            5 => 2 * slots,
            _ => 4 * slots + 1,
        };
        t.clamp(2, 300)
    }

    fn arena_slots_now(&self) -> usize {
        match self.colls.first().and_then(|c| c.snapshot()) {
            Some(s) => s.slots.len().max(2),
            None => self.cfg.cap.max(8),
        }
    }

    /// What the collection can show of the entry (key, version): a plain set value is its key.
    #[inline]
    fn ent(&self, k: i32, v: u32) -> Seen {
        if self.is_set && self.cfg.key_ty == 1 {
            (k, k, VER_ANY)
        } else if self.cfg.key_ty == 1 && self.cfg.universe > 1024 {
            (KEY_ANY, KEY_ANY, v)
        } else if self.cfg.key_ty == 1 {
            (k, k, v & 0xF_FFFF)
        } else {
            (k, k, v)
        }
    }

    fn expected_seen(&self, k: i32) -> Option<Seen> {
        self.model.get(&k).map(|v| self.ent(k, *v))
    }

    fn sweep_keys(&self) -> Vec<i32> {
        if self.cfg.universe <= 40 {
            ((self.cfg.key_lo - 1)..=(self.cfg.key_lo + self.cfg.universe)).collect()
        } else {
            let mut set = std::collections::BTreeSet::new();
            for k in self.model.keys().take(24).chain(self.model.keys().rev().take(8)) {
                set.insert(k.saturating_sub(1));
                set.insert(*k);
                set.insert(k.saturating_add(1));
            }
            set.insert(self.cfg.key_lo - 1);
            for k in &self.touched {
                set.insert(k.saturating_sub(1));
                set.insert(*k);
                set.insert(k.saturating_add(1));
            }
            set.into_iter().collect()
        }
    }

    /// Full observation of one collection: lookup of every window key, the
    /// predecessor designation of every window key, emptiness.
    fn observe(&mut self, ci: usize, ctx: &mut RunCtx, opkind: &'static str, twin: bool) -> Result<Vec<Option<Seen>>, Stop> {
        let keys = self.sweep_keys();
        let cfg = self.cfg.clone();
        let c: &Box<dyn OColl> = if twin { self.twins[ci].as_ref().unwrap() } else { &self.colls[ci] };
        let name = if twin { twin_name(c.name()) } else { c.name() };
        let owned = !twin && cfg.has(O_OGET | O_OFIRST | O_OHANDLE | O_TORN | O_TWIN);
        let with_first = Self::sweep_with_first(&cfg);
        let mut out = Vec::with_capacity(keys.len() * 2 + 1);
        for q in keys {
            let (r, _) = call(ctx, &cfg, name, "get_value", opkind, owned, None, None, || c.get(q))?;
            if let Called::Ok(v) = r {
                out.push(v);
            }
            if !with_first {
                // the predecessor-handle query is C08's business, not C04/C05's
                out.push(None);
                continue;
            }
            let (r, _) = call(ctx, &cfg, name, "first_index_less", opkind, owned, None, None, || {
                let h = c.first(q);
                if h == EMPTY_REF {
                    None
                } else {
                    Some(c.read(h))
                }
            })?;
            if let Called::Ok(v) = r {
                out.push(v);
            }
        }
        let (r, _) = call(ctx, &cfg, name, "is_empty", opkind, owned, None, None, || c.is_empty())?;
        if let Called::Ok(e) = r {
            out.push(if e { None } else { Some((0, 0, 0)) });
        }
        Ok(out)
    }

    fn sweep_with_first(cfg: &Cfg) -> bool {
        cfg.has(O_OFIRST | O_OHANDLE | O_TORN | O_TWIN | O_CRASH)
    }

    fn expected_observation(&self, model: &BTreeMap<i32, u32>) -> Vec<Option<Seen>> {
        let keys = self.sweep_keys();
        let with_first = Self::sweep_with_first(&self.cfg);
        let mut out = Vec::with_capacity(keys.len() * 2 + 1);
        for q in keys {
            out.push(model.get(&q).map(|v| self.ent(q, *v)));
            out.push(if with_first { model.range(..=q).next_back().map(|(k, v)| self.ent(*k, *v)) } else { None });
        }
        out.push(if model.is_empty() { None } else { Some((0, 0, 0)) });
        out
    }

    fn describe_diff(&self, got: &[Option<Seen>], exp: &[Option<Seen>]) -> String {
        let keys = self.sweep_keys();
        let pos = got.iter().zip(exp.iter()).position(|(a, b)| a != b).unwrap_or(0);
        if pos / 2 >= keys.len() {
            return format!("is_empty() = {} but the reference {} empty", got[pos].is_none(), if exp[pos].is_none() { "is" } else { "is not" });
        }
        let q = keys[pos / 2];
        let what = if pos % 2 == 0 { "get_value" } else { "value_by_index(first_index_less)" };
        format!("{}({}) gives {:?} but the reference gives {:?} (as (key, payload key, payload version))", what, q, got[pos], exp[pos])
    }

    /// Observable contents must equal the model (functional oracles, or right
    /// after clear: the empty answers) and / or the fresh twin's contents.
    fn sweep_check(&mut self, ctx: &mut RunCtx, oracle: &'static str, opkind: &'static str, expect_empty: bool) -> Result<(), Stop> {
        let expect = self.expected_observation(&self.model);
        let vs_model = oracle != "twin" || expect_empty;
        for ci in 0..self.colls.len() {
            let twin_obs = if self.twins[ci].is_some() { Some(self.observe(ci, ctx, opkind, true)?) } else { None };
            let got = self.observe(ci, ctx, opkind, false)?;
            ctx.stats.oracle_evals += got.len() as u64;
            if let Some(got2) = twin_obs {
                if got2 != got {
                    return Err(mismatch("twin", self.colls[ci].name(), opkind, "sweep differs from twin", format!("cleared instance vs fresh twin: {}", self.describe_diff(&got, &got2))));
                }
            }
            if vs_model && got != expect {
                let pos = got.iter().zip(expect.iter()).position(|(a, b)| a != b).unwrap_or(0);
                let tag = if pos / 2 >= self.sweep_keys().len() {
                    "sweep is_empty"
                } else if pos % 2 == 0 {
                    "sweep get_value"
                } else {
                    "sweep first_index_less"
                };
                return Err(mismatch(oracle, self.colls[ci].name(), opkind, tag, format!("after {}: {}", opkind, self.describe_diff(&got, &expect))));
            }
        }
        Ok(())
    }

    fn post_structure(&mut self, ctx: &mut RunCtx, opkind: &'static str) -> Result<(), Stop> {
        let want_struct = self.cfg.has(O_STRUCT) || self.cfg.has(O_TORN);
        let want_arena = self.cfg.has(O_ARENA) || self.cfg.has(O_TORN);
        if !want_struct && !want_arena {
            return Ok(());
        }
        for ci in 0..self.colls.len() {
            let c = &self.colls[ci];
            let name = c.name();
            if let Some(s) = c.snapshot() {
                let info = match snap::check_structure(&s) {
                    Ok(i) => i,
                    Err(m) => {
                        if want_struct {
                            return Err(invariant("struct", name, opkind, &tag_of(&m), m));
                        } else {
                            return Err(Stop::Inconclusive(format!("structure broken (not observed by this property): {}", m)));
                        }
                    }
                };
                ctx.stats.oracle_evals += 1;
                if ctx.collect_shapes && info.n <= 12 {
                    ctx.stats.shapes.insert((info.n as u32, info.shape_hash));
                }
                if info.red_root {
                    ctx.stats.bump("struct.red_root_seen");
                }
                ctx.mix(info.shape_hash);
                if want_arena {
                    if let Err(m) = snap::check_arena(&s, &info) {
                        return Err(invariant("arena", name, opkind, &tag_of(&m), m));
                    }
                    if info.n > self.peak[ci] {
                        self.peak[ci] = info.n;
                    }
                    let bound = 4 * self.peak[ci] + 2 * self.cfg.cap.max(8) + 16;
                    if s.slots.len() > bound {
                        return Err(invariant(
                            "arena",
                            name,
                            opkind,
                            "arena larger than bound",
                            format!("arena has {} slots, bound 4*peak+2*max(hint,8)+16 = {} (peak {}, hint {})", s.slots.len(), bound, self.peak[ci], self.cfg.cap),
                        ));
                    }
                    if opkind == "OClear" && s.unused.len() + 1 != s.slots.len() {
                        return Err(invariant("arena", name, opkind, "clear did not free every slot", format!("after clear {} of {} slots are free", s.unused.len(), s.slots.len().saturating_sub(1))));
                    }
                    ctx.stats.oracle_evals += 1;
                }
            } else if self.cfg.has(O_TORN) {
                let ks = c.stored_keys();
                for w in ks.windows(2) {
                    if w[0] >= w[1] {
                        return Err(invariant("struct", name, opkind, "list not strictly sorted", format!("stored keys {} then {}", w[0], w[1])));
                    }
                }
                ctx.stats.oracle_evals += 1;
            }
        }
        Ok(())
    }

    /// C17: every held handle still designates its entry.
    fn check_held(&mut self, ctx: &mut RunCtx, opkind: &'static str) -> Result<(), Stop> {
        if self.held.is_empty() || !self.cfg.has(O_OHOLD) {
            return Ok(());
        }
        let cfg = self.cfg.clone();
        for (k, hs) in self.held.clone() {
            let expect = self.expected_seen(k);
            for ci in 0..self.colls.len() {
                let c = &self.colls[ci];
                if c.is_list() {
                    continue;
                }
                let h = hs[ci];
                let name = c.name();
                let (r, _) = call(ctx, &cfg, name, "value_by_index", opkind, true, None, None, || (c.read(h), c.first(k)))?;
                if let Called::Ok((seen, h2)) = r {
                    ctx.stats.oracle_evals += 1;
                    if Some(seen) != expect {
                        return Err(mismatch("ord.hold", name, opkind, "held handle designates another entry", format!("handle {} taken for key {} now reads {:?}, expected {:?}", h, k, seen, expect)));
                    }
                    if h2 != h {
                        return Err(mismatch("ord.hold", name, opkind, "held handle no longer the entry's handle", format!("handle {} taken for key {}; first_index_less({}) now returns {}", h, k, k, h2)));
                    }
                }
            }
        }
        Ok(())
    }

    fn after_injection(&mut self, ctx: &mut RunCtx, opkind: &'static str, after: Option<BTreeMap<i32, u32>>) -> Result<(), Stop> {
        if ctx.panic_at != Some(crate::op::CONTROL) {
            ctx.stats.bump("fault.callback_panic_fired");
        }
        if !self.cfg.has(O_TORN) {
            return Ok(());
        }
        self.post_structure(ctx, opkind)?;
        // the keys the interrupted operation was about to change belong to the observation window
        if let Some(a) = after.as_ref() {
            for (k, v) in a.iter() {
                if self.model.get(k) != Some(v) && self.touched.len() < 8 && !self.touched.contains(k) {
                    self.touched.push(*k);
                }
            }
            for k in self.model.keys() {
                if !a.contains_key(k) && self.touched.len() < 8 && !self.touched.contains(k) {
                    self.touched.push(*k);
                }
            }
        }
        let exp_before = self.expected_observation(&self.model);
        let exp_after = after.as_ref().map(|m| self.expected_observation(m));
        for ci in 0..self.colls.len() {
            // the physically stored keys are those before or those after, whatever the window shows
            if self.model.len() <= 5000 {
                let ks = self.colls[ci].stored_keys();
                let same = |m: &BTreeMap<i32, u32>| m.len() == ks.len() && m.keys().zip(ks.iter()).all(|(a, b)| a == b);
                ctx.stats.oracle_evals += 1;
                if !same(&self.model) && !after.as_ref().map(same).unwrap_or(false) {
                    return Err(mismatch(
                        "torn",
                        self.colls[ci].name(),
                        opkind,
                        "stored keys neither before nor after",
                        format!("after a callback panic inside {} the collection stores {} keys, the reference {} before / {} after the operation", opkind, ks.len(), self.model.len(), after.as_ref().map(|m| m.len()).unwrap_or(self.model.len())),
                    ));
                }
            }
            let got = self.observe(ci, ctx, opkind, false)?;
            ctx.stats.oracle_evals += got.len() as u64;
            if let Some(ea) = exp_after.as_ref() {
                if got == *ea {
                    ctx.stats.bump("torn.state_after");
                    self.model = after.clone().unwrap();
                    continue;
                }
            }
            if got == exp_before {
                ctx.stats.bump("torn.state_before");
                continue;
            }
            return Err(mismatch(
                "torn",
                self.colls[ci].name(),
                opkind,
                "neither before nor after",
                format!("after a callback panic inside {} the observable contents equal neither the state before nor after: {}", opkind, self.describe_diff(&got, &exp_before)),
            ));
        }
        Ok(())
    }

    fn drop_held(&mut self) {
        self.held.clear();
    }

    fn reach_delete(&mut self, ctx: &mut RunCtx, k: i32) {
        if !ctx.collect_shapes || self.cfg.cap > 1_000_000 {
            return;
        }
        if let Some(s) = self.colls[0].snapshot() {
            let i = snap::find_key(&s, k);
            if i != snap::E {
                let c = snap::classify_delete(&s, i);
                ctx.stats.bump(key2(self.colls[0].name(), key2("delete", c)));
            }
        }
    }

    fn reach_insert(&mut self, ctx: &mut RunCtx, k: i32) {
        if !ctx.collect_shapes || self.cfg.cap > 1_000_000 {
            return;
        }
        if let Some(s) = self.colls[0].snapshot() {
            let name = self.colls[0].name();
            ctx.stats.bump(key2(name, key2("insert", snap::classify_insert(&s, k))));
            if s.unused.is_empty() {
                ctx.stats.bump(key2(name, "arena.growth_on_insert"));
            }
        }
    }

    // ------------------------------------------------------------------ steps

    /// Which oracle observes the answer of this operation kind.
    fn oracle_of(op: &Op) -> (u32, &'static str) {
        match op {
            Op::OGet { .. } | Op::OEmpty => (O_OGET, "ord.get"),
            Op::OFirst { .. } => (O_OFIRST, "ord.first"),
            Op::OHRead { .. } | Op::OHWrite { .. } | Op::OHDel { .. } => (O_OHANDLE, "ord.handle"),
            Op::ONext { .. } | Op::OPrev { .. } | Op::OWalk => (O_ONEIGH, "ord.neigh"),
            _ => (0, "ord"),
        }
    }

    fn callname_of(op: &Op) -> &'static str {
        match op {
            Op::OIns { .. } => "insert",
            Op::ODel { .. } => "delete",
            Op::OGet { .. } => "get_value",
            Op::OEmpty => "is_empty",
            Op::OClear => "clear",
            Op::OFirst { .. } => "first_index_less(_by)",
            Op::OHRead { .. } => "value_by_index",
            Op::OHWrite { .. } => "value_by_index_mut",
            Op::OHDel { .. } => "delete_by_index",
            Op::OHold { .. } => "first_index_less",
            Op::ONext { .. } => "index_after",
            Op::OPrev { .. } => "index_before",
            Op::OWalk => "index_after/index_before walk",
            _ => "?",
        }
    }

    /// The operation itself, as calls into the collection. The answer is what
    /// the caller can observe (handles are reported by what they designate).
    fn exec_op(c: &mut Box<dyn OColl>, op: &Op, ver: u32, n_model: usize, walk_start: i32) -> Vec<Option<Seen>> {
        const DISAGREE: Option<Seen> = Some((i32::MIN, i32::MIN, u32::MAX));
        const NO_HANDLE: Option<Seen> = Some((i32::MIN, i32::MIN, u32::MAX - 1));
        match *op {
            Op::OIns { k } => {
                c.insert(k, ver);
                vec![]
            }
            Op::ODel { k } => {
                c.delete(k);
                vec![]
            }
            Op::OClear => {
                c.clear();
                vec![]
            }
            Op::OGet { k } => vec![c.get(k)],
            Op::OEmpty => vec![if c.is_empty() { None } else { Some((0, 0, 0)) }],
            Op::OFirst { p } => {
                let h0 = c.first(p);
                let h1 = c.first_by(p, 0);
                let h2 = c.first_by(p, 1);
                let seen = if h0 == EMPTY_REF { None } else { Some(c.read(h0)) };
                if h0 != h1 || h0 != h2 {
                    vec![seen, DISAGREE]
                } else {
                    vec![seen]
                }
            }
            Op::OHRead { p } | Op::OHWrite { p } | Op::OHDel { p } => {
                let h = c.first(p);
                if h == EMPTY_REF {
                    return vec![None];
                }
                let seen = c.read(h);
                match op {
                    Op::OHWrite { .. } => c.write(h, ver),
                    Op::OHDel { .. } => c.delete_by_index(h),
                    _ => {}
                }
                vec![Some(seen)]
            }
            Op::ONext { k } | Op::OPrev { k } => {
                if !c.has_neighbours() {
                    return vec![];
                }
                let h = c.first(k);
                if h == EMPTY_REF || c.read(h).0 != k {
                    // no (or a wrong) handle for a stored key: a wrong answer of the handle
                    // query, which is C08's business; the sentinel must not be passed on
                    // (that would leave the contract) and the neighbour step of another
                    // entry says nothing about this one
                    return vec![NO_HANDLE];
                }
                let nh = if matches!(op, Op::ONext { .. }) { c.next(h) } else { c.prev(h) };
                vec![if nh == EMPTY_REF { None } else { Some(c.read(nh)) }]
            }
            Op::OWalk => {
                if !c.has_neighbours() || n_model == 0 {
                    return vec![];
                }
                let mut out = Vec::with_capacity(2 * n_model + 4);
                for forward in [true, false] {
                    // forwards from the smallest stored key, backwards from the largest (predecessor of +inf)
                    let mut h = if forward { c.first(walk_start) } else { c.first(i32::MAX) };
                    if h == EMPTY_REF || (forward && c.read(h).0 != walk_start) {
                        // the handle query failed to designate the first entry (C08's business)
                        return vec![NO_HANDLE];
                    }
                    let mut steps = 0usize;
                    while h != EMPTY_REF && steps <= n_model + 1 {
                        out.push(Some(c.read(h)));
                        h = if forward { c.next(h) } else { c.prev(h) };
                        steps += 1;
                    }
                    out.push(None);
                }
                out
            }
            _ => vec![],
        }
    }

    fn expected_answer(&self, op: &Op) -> Vec<Option<Seen>> {
        let m = &self.model;
        let pred = |p: i32| m.range(..=p).next_back().map(|(k, v)| self.ent(*k, *v));
        match *op {
            Op::OGet { k } => vec![self.expected_seen(k)],
            Op::OEmpty => vec![if m.is_empty() { None } else { Some((0, 0, 0)) }],
            Op::OFirst { p } | Op::OHRead { p } | Op::OHWrite { p } | Op::OHDel { p } => vec![pred(p)],
            Op::ONext { k } => vec![m.range((std::ops::Bound::Excluded(k), std::ops::Bound::Unbounded)).next().map(|(a, v)| self.ent(*a, *v))],
            Op::OPrev { k } => vec![m.range(..k).next_back().map(|(a, v)| self.ent(*a, *v))],
            Op::OWalk => {
                if m.is_empty() {
                    return vec![];
                }
                let mut out: Vec<Option<Seen>> = m.iter().map(|(k, v)| Some(self.ent(*k, *v))).collect();
                out.push(None);
                out.extend(m.iter().rev().map(|(k, v)| Some(self.ent(*k, *v))));
                out.push(None);
                out
            }
            _ => vec![],
        }
    }

    fn diff_tag(op: &Op, got: &[Option<Seen>], exp: &[Option<Seen>]) -> &'static str {
        match op {
            Op::OGet { .. } => "get_value",
            Op::OEmpty => "is_empty",
            Op::OFirst { .. } => {
                if got.len() > 1 {
                    "key and comparator forms disagree"
                } else if got.first() == Some(&None) {
                    "sentinel although a predecessor exists"
                } else if exp.first() == Some(&None) {
                    "handle although no predecessor"
                } else {
                    "wrong predecessor"
                }
            }
            Op::OHRead { .. } | Op::OHWrite { .. } | Op::OHDel { .. } => "handle designates wrong entry",
            Op::ONext { .. } | Op::OPrev { .. } => {
                if exp.first() == Some(&None) {
                    "no sentinel past the end"
                } else if got.first() == Some(&None) {
                    "sentinel although a neighbour exists"
                } else {
                    "wrong neighbour"
                }
            }
            Op::OWalk => {
                if got.len() > exp.len() {
                    "walk does not stop at the end"
                } else if got.len() < exp.len() {
                    "walk stops early"
                } else {
                    "walk out of order"
                }
            }
            _ => "answer",
        }
    }

    fn model_after(&self, op: &Op, ver: u32) -> Option<BTreeMap<i32, u32>> {
        let pred = |p: i32| self.model.range(..=p).next_back().map(|(k, _)| *k);
        let mut m = self.model.clone();
        match *op {
            Op::OIns { k } => {
                m.insert(k, ver);
            }
            Op::ODel { k } => {
                m.remove(&k);
            }
            Op::OClear => m.clear(),
            Op::OHWrite { p } => {
                if let Some(k) = pred(p) {
                    m.insert(k, ver);
                }
            }
            Op::OHDel { p } => {
                if let Some(k) = pred(p) {
                    m.remove(&k);
                }
            }
            _ => return None,
        }
        Some(m)
    }

    fn apply_model(&mut self, op: &Op, ver: u32) {
        match *op {
            Op::OIns { k } => {
                self.model.insert(k, ver);
                self.gen.order.push(k);
            }
            Op::ODel { k } => {
                self.model.remove(&k);
                self.gen.order.retain(|x| *x != k);
            }
            Op::OClear => {
                self.model.clear();
                self.gen.order.clear();
            }
            Op::OHWrite { p } => {
                if let Some(k) = self.model.range(..=p).next_back().map(|(k, _)| *k) {
                    self.model.insert(k, ver);
                }
            }
            Op::OHDel { p } => {
                if let Some(k) = self.model.range(..=p).next_back().map(|(k, _)| *k) {
                    self.model.remove(&k);
                    self.gen.order.retain(|x| *x != k);
                }
            }
            _ => {}
        }
    }

    /// One step on every collection: fresh twin first (C12), then the
    /// collection under test; answers are compared with the model when this
    /// property observes the operation, and with the twin when there is one.
    fn step_generic(&mut self, step: &Step, ctx: &mut RunCtx) -> Result<(), Stop> {
        let cfg = self.cfg.clone();
        let op = step.op.clone();
        let opkind = op.kind();
        let callname = Self::callname_of(&op);
        let (obit, oname) = Self::oracle_of(&op);
        let observed = obit != 0 && cfg.has(obit);
        let ver = self.next_ver;
        self.next_ver += 1;
        let n_model = self.model.len();
        let expect = self.expected_answer(&op);
        let walk_start = self.model.keys().next().copied().unwrap_or(0);
        // reach counters
        match op {
            Op::OIns { k } => self.reach_insert(ctx, k),
            Op::ODel { k } => {
                if self.model.contains_key(&k) {
                    self.reach_delete(ctx, k)
                } else {
                    ctx.stats.bump("delete.absent_key")
                }
            }
            Op::OHDel { p } => {
                if let Some(k) = self.model.range(..=p).next_back().map(|(k, _)| *k) {
                    self.reach_delete(ctx, k);
                }
            }
            Op::ONext { .. } | Op::OPrev { .. } => {
                if expect.first() == Some(&None) {
                    ctx.stats.bump(if matches!(op, Op::ONext { .. }) { "neigh.step_past_largest" } else { "neigh.step_past_smallest" });
                }
            }
            Op::OClear => {
                if self.model.is_empty() {
                    ctx.stats.bump("clear.of_empty");
                }
                if let Some(s) = self.colls[0].snapshot() {
                    if s.slots.len() > cfg.cap.max(8) {
                        ctx.stats.bump("clear.after_arena_growth");
                    }
                }
            }
            _ => {}
        }
        if matches!(op, Op::ODel { .. } | Op::OHDel { .. } | Op::OHWrite { .. } | Op::OClear) {
            self.drop_held();
        }
        let mutating = matches!(op, Op::OIns { .. } | Op::ODel { .. } | Op::OClear | Op::OHWrite { .. } | Op::OHDel { .. });
        let mut injected = false;
        for ci in 0..self.colls.len() {
            let name = self.colls[ci].name();
            if !self.colls[ci].has_neighbours() && matches!(op, Op::ONext { .. } | Op::OPrev { .. } | Op::OWalk) {
                if ci == 0 {
                    ctx.cb_counts.push(0);
                }
                continue;
            }
            let mut twin_ans: Option<Vec<Option<Seen>>> = None;
            if let Some(tw) = self.twins[ci].as_mut() {
                let (r2, _) = call(ctx, &cfg, twin_name(name), callname, opkind, false, None, None, || Self::exec_op(tw, &op, ver, n_model, walk_start))?;
                if let Called::Ok(a) = r2 {
                    twin_ans = Some(a);
                }
            }
            let owned = observed || twin_ans.is_some() || (matches!(op, Op::OClear) && cfg.has(O_TWIN));
            let c = &mut self.colls[ci];
            let (r, n) = call(ctx, &cfg, name, callname, opkind, owned, step.panic_at, None, || Self::exec_op(c, &op, ver, n_model, walk_start))?;
            if ci == 0 {
                ctx.cb_counts.push(n);
            }
            match r {
                Called::Ok(got) => {
                    for g in &got {
                        ctx.mix(g.map(|s| (s.0 as u64).wrapping_mul(31).wrapping_add(s.2 as u64)).unwrap_or(17));
                    }
                    let skip = got.len() == 1 && got[0] == Some((i32::MIN, i32::MIN, u32::MAX - 1));
                    if skip {
                        ctx.stats.bump("neigh.skipped_handle_query_gave_no_handle");
                    }
                    if (observed || cfg.has(O_TORN)) && obit != 0 && !skip {
                        ctx.stats.oracle_evals += 1;
                        if got != expect {
                            return Err(mismatch(
                                oname,
                                name,
                                opkind,
                                Self::diff_tag(&op, &got, &expect),
                                format!("`{}`: {} answered {:?}, reference {:?} (entries as (key, payload key, payload version))", op.to_text(), callname, brief(&got), brief(&expect)),
                            ));
                        }
                    }
                    if let Some(tw) = twin_ans {
                        ctx.stats.oracle_evals += 1;
                        if tw != got {
                            return Err(mismatch("twin", name, opkind, "answer differs from twin", format!("`{}`: cleared instance answered {:?}, fresh twin {:?}", op.to_text(), brief(&got), brief(&tw))));
                        }
                    }
                }
                Called::Injected => injected = true,
            }
        }
        if injected {
            // every callback of these operations runs before the first write:
            // contents must be those before, or (completed) those after
            let after = self.model_after(&op, ver);
            self.after_injection(ctx, opkind, after)?;
            self.drop_held();
            return Ok(());
        }
        self.apply_model(&op, ver);
        if matches!(op, Op::OClear) && cfg.has(O_TWIN) {
            for ci in 0..self.colls.len() {
                self.twins[ci] = Some(self.colls[ci].fresh(cfg.cap));
            }
            self.sweep_check(ctx, "twin", opkind, true)?;
        }
        if mutating {
            self.post_structure(ctx, opkind)?;
        }
        if mutating && (cfg.sweep_mode == 0 || matches!(op, Op::OClear)) {
            if cfg.has(O_OGET) {
                self.sweep_check(ctx, "ord.get", opkind, false)?;
            } else if observed && cfg.has(O_OHANDLE) {
                self.sweep_check(ctx, "ord.handle", opkind, false)?;
            } else if self.twins.iter().any(|t| t.is_some()) {
                self.sweep_check(ctx, "twin", opkind, false)?;
            }
        }
        Ok(())
    }

    /// Keys of a bulk build, in insertion order.
    fn bulk_keys(&self, n: i32, pat: u8) -> Vec<i32> {
        let lo = self.cfg.key_lo;
        match pat {
            0 => (0..n).map(|i| lo + i).collect(),
            1 => (0..n).rev().map(|i| lo + i).collect(),
            // outward from the middle: alternately a new maximum and a new minimum
            3 => {
                let m = n / 2;
                let mut v = Vec::with_capacity(n as usize);
                let (mut a, mut b) = (m - 1, m);
                while a >= 0 || b < n {
                    if b < n {
                        v.push(lo + b);
                        b += 1;
                    }
                    if a >= 0 {
                        v.push(lo + a);
                        a -= 1;
                    }
                }
                v
            }
            // inward from both ends
            4 => {
                let mut v = Vec::with_capacity(n as usize);
                let (mut a, mut b) = (0, n);
                while a < b {
                    v.push(lo + a);
                    a += 1;
                    if a < b {
                        b -= 1;
                        v.push(lo + b);
                    }
                }
                v
            }
            _ => {
                let h = n / 2;
                (0..h).map(|i| lo + i).chain((h..n).rev().map(|i| lo + i)).collect()
            }
        }
    }

    fn step_bulk(&mut self, n: i32, pat: u8, ctx: &mut RunCtx) -> Result<(), Stop> {
        let cfg = self.cfg.clone();
        let keys = self.bulk_keys(n, pat);
        let first_ver = self.next_ver;
        self.next_ver += n as u32;
        ctx.stats.bump("bulk.large_tree_built");
        for ci in 0..self.colls.len() {
            let name = self.colls[ci].name();
            let c = &mut self.colls[ci];
            // in chunks, so that the watchdog's heartbeat keeps beating on a slow machine
            let mut cb_total = 0u32;
            for (chunk_no, chunk) in keys.chunks(2000).enumerate() {
                let base = first_ver + (chunk_no * 2000) as u32;
                let (_, cb) = call(ctx, &cfg, name, "insert (bulk)", "OBulk", false, None, None, || {
                    for (i, k) in chunk.iter().enumerate() {
                        c.insert(*k, base + i as u32);
                    }
                })?;
                cb_total = cb_total.saturating_add(cb);
            }
            if ci == 0 {
                // no crash points inside a bulk build: it only sets the stage
                ctx.cb_counts.push(if cfg.has(O_TORN) { 0 } else { cb_total });
            }
            if let Some(tw) = self.twins[ci].as_mut() {
                for (chunk_no, chunk) in keys.chunks(2000).enumerate() {
                    let base = first_ver + (chunk_no * 2000) as u32;
                    let _ = call(ctx, &cfg, twin_name(name), "insert (bulk)", "OBulk", false, None, None, || {
                        for (i, k) in chunk.iter().enumerate() {
                            tw.insert(*k, base + i as u32);
                        }
                    })?;
                }
            }
        }
        if self.model.is_empty() {
            // bulk construction of the reference map (sorted input is built in linear time)
            self.model = keys.iter().enumerate().map(|(i, k)| (*k, first_ver + i as u32)).collect();
        } else {
            for (i, k) in keys.iter().enumerate() {
                self.model.insert(*k, first_ver + i as u32);
            }
        }
        self.post_structure(ctx, "OBulk")?;
        if cfg.has(O_OGET) {
            self.sweep_check(ctx, "ord.get", "OBulk", false)?;
        }
        Ok(())
    }

    fn step_hold(&mut self, k: i32, ctx: &mut RunCtx) -> Result<(), Stop> {
        let cfg = self.cfg.clone();
        let mut hs = Vec::new();
        for ci in 0..self.colls.len() {
            let c = &self.colls[ci];
            let name = c.name();
            let (r, n) = call(ctx, &cfg, name, "first_index_less", "OHold", cfg.has(O_OHOLD), None, None, || c.first(k))?;
            if ci == 0 {
                ctx.cb_counts.push(n);
            }
            if let Called::Ok(h) = r {
                hs.push(h);
            }
        }
        if hs.len() == self.colls.len() && hs.iter().all(|h| *h != EMPTY_REF) {
            // keep the handle only if it designates the entry now (a wrong answer of the
            // handle query itself is C08's business)
            let expect = self.expected_seen(k);
            let mut good = true;
            for ci in 0..self.colls.len() {
                let c = &self.colls[ci];
                let h = hs[ci];
                let (r, _) = call(ctx, &cfg, c.name(), "value_by_index", "OHold", false, None, None, || c.read(h))?;
                if let Called::Ok(seen) = r {
                    if Some(seen) != expect {
                        good = false;
                    }
                }
            }
            if good {
                self.held.retain(|e| e.0 != k);
                self.held.push((k, hs));
                ctx.stats.bump("hold.handles_taken");
            } else {
                ctx.stats.bump("hold.acquired_handle_designates_another_entry");
            }
        }
        Ok(())
    }

    // ------------------------------------------------------------------ generation

    fn pick_key(&mut self, r: &mut Rng) -> i32 {
        let lo = self.cfg.key_lo;
        let u = self.cfg.universe.max(1);
        let g = &mut self.gen;
        let k = match g.key_pattern {
            0 => lo + r.below(u as u64) as i32,
            1 => g.last_key + 1,
            2 => g.last_key - 1,
            3 => {
                g.zig = !g.zig;
                let mid = lo + u / 2;
                let d = (g.last_key - mid).abs() + 1;
                if g.zig {
                    mid + d
                } else {
                    mid - d
                }
            }
            4 => g.last_key + *r.pick(&[-1, 1, 1, 2, -2]),
            _ => {
                if r.chance(1, 2) {
                    lo + r.below(u as u64) as i32
                } else {
                    g.last_key + *r.pick(&[-1, 1])
                }
            }
        };
        let k = lo + (k - lo).rem_euclid(u);
        g.last_key = k;
        k
    }

    fn pick_present(&mut self, r: &mut Rng) -> Option<i32> {
        if self.model.is_empty() {
            return None;
        }
        if self.model.len() > 50_000 {
            // a bulk-built tree: ends, the middle seam of pattern 2, the root, else anything
            let lo = *self.model.keys().next().unwrap();
            let hi = *self.model.keys().next_back().unwrap();
            let mid = lo + (hi - lo + 1) / 2;
            let root = self.colls[0].snapshot().and_then(|s| s.slots.get(s.root as usize).map(|n| n.key));
            let mut cands = vec![lo, lo + 1, hi, hi - 1, mid - 1, mid, mid + 1, mid - 2];
            if let Some(k) = root {
                cands.extend([k, k - 1, k + 1]);
            }
            cands.push(r.range(lo as i64, hi as i64) as i32);
            cands.retain(|k| self.model.contains_key(k));
            return cands.get(r.below(cands.len().max(1) as u64) as usize).copied();
        }
        let which = r.weighted(&self.gen.del_w);
        let ks: Vec<i32> = self.model.keys().copied().collect();
        let snap = if which >= 5 && self.cfg.cap <= 1_000_000 { self.colls[0].snapshot() } else { None };
        Some(match which {
            0 => *self.gen.order.last().unwrap_or(&ks[0]),
            1 => *self.gen.order.first().unwrap_or(&ks[0]),
            2 => ks[0],
            3 => ks[ks.len() - 1],
            5 => match snap {
                // the key at the root
                Some(s) if (s.root as usize) < s.slots.len() => s.slots[s.root as usize].key,
                _ => *r.pick(&ks),
            },
            6 => match snap {
                // a key whose node has two children
                Some(s) => {
                    let cands: Vec<i32> = ks.iter().copied().filter(|k| {
                        let i = snap::find_key(&s, *k);
                        i != snap::E && s.slots[i as usize].left != snap::E && s.slots[i as usize].right != snap::E
                    }).collect();
                    if cands.is_empty() { *r.pick(&ks) } else { *r.pick(&cands) }
                }
                None => *r.pick(&ks),
            },
            7 => match snap {
                // a black leaf (double-black repair)
                Some(s) => {
                    let cands: Vec<i32> = ks.iter().copied().filter(|k| {
                        let i = snap::find_key(&s, *k);
                        i != snap::E && !s.slots[i as usize].red && s.slots[i as usize].left == snap::E && s.slots[i as usize].right == snap::E
                    }).collect();
                    if cands.is_empty() { *r.pick(&ks) } else { *r.pick(&cands) }
                }
                None => *r.pick(&ks),
            },
            _ => *r.pick(&ks),
        })
    }

    fn pick_probe(&mut self, r: &mut Rng) -> i32 {
        let lo = self.cfg.key_lo;
        let u = self.cfg.universe.max(1);
        match r.below(6) {
            0 => lo - 1,
            1 => lo + u,
            2 | 3 => {
                let ks: Vec<i32> = self.model.keys().copied().collect();
                if ks.is_empty() {
                    lo + r.below(u as u64) as i32
                } else {
                    r.pick(&ks).saturating_add(*r.pick(&[-1, 0, 0, 1]))
                }
            }
            _ => lo + r.below(u as u64) as i32,
        }
    }
}

impl World for OrdWorld {
    fn legal(&self, op: &Op) -> bool {
        match op {
            Op::OIns { k } => {
                // the packed value of the plain map has room for key offsets -2 ..= 4093 only
                // (and for versions below 2^20: a million insertions per run)
                let packable = self.cfg.key_ty != 1 || self.is_set || self.cfg.universe > 1024 || ((-2..=4090).contains(&(*k as i64 - self.cfg.key_lo as i64)) && self.next_ver < 0xF_0000);
                packable && !self.model.contains_key(k)
            }
            Op::ODel { .. } | Op::OGet { .. } | Op::OEmpty | Op::OClear | Op::OFirst { .. } | Op::OHRead { .. } | Op::OHWrite { .. } | Op::OHDel { .. } => true,
            Op::OHold { k } => self.model.contains_key(k),
            Op::ONext { k } | Op::OPrev { k } => self.is_set && self.model.contains_key(k),
            Op::OWalk => self.is_set,
            Op::OSweep => true,
            // (sorted lists take part in small bulk builds only: their insertion is quadratic)
            Op::OBulk { n, pat } => self.model.is_empty() && *n > 0 && *n <= self.cfg.universe && *pat <= 4 && (*n <= 5000 || self.colls.iter().all(|c| !c.is_list())),
            _ => false,
        }
    }

    fn apply(&mut self, step: &Step, ctx: &mut RunCtx) -> Result<Flow, Stop> {
        ctx.stats.ops += 1;
        ctx.panic_at = step.panic_at;
        let n_before = ctx.cb_counts.len();
        let opkind = step.op.kind();
        // the key this operation is about is part of every observation window that follows it
        match step.op {
            Op::OIns { k } | Op::ODel { k } | Op::OGet { k } | Op::OHold { k } | Op::ONext { k } | Op::OPrev { k } => {
                self.touched.clear();
                self.touched.push(k);
            }
            Op::OFirst { p } | Op::OHRead { p } | Op::OHWrite { p } | Op::OHDel { p } => {
                self.touched.clear();
                self.touched.push(p);
                if let Some((k, _)) = self.model.range(..=p).next_back() {
                    self.touched.push(*k);
                }
            }
            _ => {}
        }
        match step.op {
            Op::OHold { k } => self.step_hold(k, ctx)?,
            Op::OBulk { n, pat } => self.step_bulk(n, pat, ctx)?,
            Op::OSweep => {
                let oracle = if self.cfg.has(O_OGET) {
                    "ord.get"
                } else if self.cfg.has(O_OHANDLE) {
                    "ord.handle"
                } else {
                    "twin"
                };
                if self.cfg.has(O_OGET | O_OHANDLE | O_TORN) || self.twins.iter().any(|t| t.is_some()) {
                    self.sweep_check(ctx, oracle, "OSweep", false)?;
                }
            }
            Op::OIns { .. } | Op::ODel { .. } | Op::OGet { .. } | Op::OEmpty | Op::OClear | Op::OFirst { .. } | Op::OHRead { .. } | Op::OHWrite { .. } | Op::OHDel { .. } | Op::ONext { .. } | Op::OPrev { .. } | Op::OWalk => self.step_generic(step, ctx)?,
            _ => return Err(Stop::Inconclusive("operation of another world".into())),
        }
        if ctx.cb_counts.len() == n_before {
            ctx.cb_counts.push(0);
        }
        if step.panic_at == Some(crate::op::CONTROL) {
            self.after_injection(ctx, opkind, None)?;
        }
        // C17: insertions and lookups must leave held handles valid
        match step.op {
            Op::OIns { .. } | Op::OGet { .. } | Op::OFirst { .. } | Op::OHRead { .. } | Op::OHold { .. } | Op::OEmpty => self.check_held(ctx, opkind)?,
            _ => {}
        }
        Ok(Flow::Continue)
    }

    fn gen(&mut self, r: &mut Rng, _ctx: &mut RunCtx, _remaining: usize) -> Op {
        self.gen.generated += 1;
        if self.cfg.sweep_mode == 1 && r.chance(1, 6) {
            return Op::OSweep;
        }
        if self.model.len() > 50_000 && !self.gen.bulk_followup_done {
            // right after a bulk build: neighbour steps at the places where the deepest climbs
            // and descents are (the ends, and the seam of the two-sided pattern)
            self.gen.bulk_followup_done = true;
            // greybox steering for every ordered world: lookups, predecessor handles and held
            // handles at the end of the longest root-to-leaf path, at both extremes and just
            // outside them (only operation kinds that are part of this run's alphabet)
            if let Some(s) = self.colls[0].snapshot() {
                let mut deepest = (0usize, None::<i32>);
                let mut stack: Vec<(u32, usize)> = Vec::new();
                if (s.root as usize) < s.slots.len() {
                    stack.push((s.root, 1));
                }
                let mut visited = 0usize;
                while let Some((ix, d)) = stack.pop() {
                    visited += 1;
                    if visited > s.slots.len() + 1 {
                        break;
                    }
                    let nd = &s.slots[ix as usize];
                    if d > deepest.0 {
                        deepest = (d, Some(nd.key));
                    }
                    for c in [nd.left, nd.right] {
                        if (c as usize) < s.slots.len() && c != 0 {
                            stack.push((c, d + 1));
                        }
                    }
                }
                if deepest.0 >= 34 {
                    _ctx.stats.bump("bulk.path_of_34_or_more_entries");
                }
                if deepest.0 >= 47 {
                    _ctx.stats.bump("bulk.path_of_47_or_more_entries");
                }
                if std::env::var("VERIF_DEBUG_BULK").is_ok() {
                    eprintln!("bulk n={} longest root-to-leaf path: {} entries", self.model.len(), deepest.0);
                }
                let lo = *self.model.keys().next().unwrap();
                let hi = *self.model.keys().next_back().unwrap();
                let mut probes: Vec<i32> = Vec::new();
                if let Some(k) = deepest.1 {
                    probes.push(k);
                }
                probes.extend([hi, hi.saturating_add(1), lo, lo.saturating_sub(1)]);
                let w = self.gen.w;
                for &p in &probes {
                    if w[W_GET] > 0 {
                        self.gen.pending.push_back(Op::OGet { k: p });
                    }
                    if w[W_FIRST] > 0 {
                        self.gen.pending.push_back(Op::OFirst { p });
                    }
                }
                if let Some(k) = deepest.1 {
                    if w[W_HREAD] > 0 {
                        self.gen.pending.push_back(Op::OHRead { p: k });
                        self.gen.pending.push_back(Op::OHRead { p: hi.saturating_add(1) });
                    }
                    if w[W_HOLD] > 0 && self.model.contains_key(&k) {
                        self.gen.pending.push_back(Op::OHold { k });
                        self.gen.pending.push_back(Op::OHold { k: hi });
                    }
                }
            }
            if self.is_set {
                let lo = *self.model.keys().next().unwrap();
                let hi = *self.model.keys().next_back().unwrap();
                let mid = lo + (hi - lo + 1) / 2;
                for op in [Op::ONext { k: mid - 1 }, Op::OPrev { k: mid }, Op::ONext { k: hi }, Op::OPrev { k: lo }, Op::ONext { k: mid }, Op::OPrev { k: mid - 1 }] {
                    self.gen.pending.push_back(op);
                }
                // greybox steering: the entries whose neighbour lies deepest below them (longest
                // inner spine under the right / left child), read from the structural snapshot
                if let Some(s) = self.colls[0].snapshot() {
                    let (mut best_next, mut best_prev) = ((0usize, 0i32), (0usize, 0i32));
                    let in_tree: Vec<u32> = snap::check_structure(&s).map(|i| i.inorder).unwrap_or_default();
                    for &ix in &in_tree {
                        let nd = &s.slots[ix as usize];
                        for forward in [true, false] {
                            let mut c = if forward { nd.right } else { nd.left };
                            let mut d = 0usize;
                            while (c as usize) < s.slots.len() && d < 200 {
                                d += 1;
                                c = if forward { s.slots[c as usize].left } else { s.slots[c as usize].right };
                            }
                            if forward && d > best_next.0 {
                                best_next = (d, nd.key);
                            }
                            if !forward && d > best_prev.0 {
                                best_prev = (d, nd.key);
                            }
                        }
                    }
                    if best_next.0 >= 33 || best_prev.0 >= 33 {
                        _ctx.stats.bump("bulk.inner_spine_33_or_longer");
                    }
                    if std::env::var("VERIF_DEBUG_BULK").is_ok() {
                        eprintln!("bulk n={} deepest inner spines: next {:?} prev {:?}", self.model.len(), best_next, best_prev);
                    }
                    if self.model.contains_key(&best_next.1) {
                        self.gen.pending.push_front(Op::ONext { k: best_next.1 });
                    }
                    if self.model.contains_key(&best_prev.1) {
                        self.gen.pending.push_front(Op::OPrev { k: best_prev.1 });
                    }
                }
            }
        }
        if self.gen.forced_clear_at == Some(self.gen.generated - 1) {
            if r.below(100) < self.gen.fill_pct {
                self.gen.fill_target = Some(Self::draw_fill_target(&self.cfg, r));
            }
            return Op::OClear;
        }
        while let Some(op) = self.gen.pending.pop_front() {
            if self.legal(&op) {
                return op;
            }
        }
        if self.model.len() > 50_000 && r.chance(1, 6) {
            // clear of a very large arena, then refill: a small fill, or a second bulk build that
            // outgrows the arena the clear left behind
            if r.chance(1, 2) {
                self.gen.fill_target = Some(Self::draw_fill_target(&self.cfg, r));
            } else {
                let n = (self.model.len() as i32).saturating_add(5000).min(self.cfg.universe);
                self.gen.pending.push_back(Op::OBulk { n, pat: r.below(3) as u8 });
            }
            return Op::OClear;
        }
        if let Some(t0) = self.gen.fill_target {
            let target = if t0 >= 1_000_000 { self.resolve_fill_target(t0) } else { t0 };
            self.gen.fill_target = Some(target);
            if self.model.len() < target && (self.cfg.universe as usize) > target + 1 {
                for _ in 0..12 {
                    let k = self.pick_key(r);
                    if !self.model.contains_key(&k) {
                        return Op::OIns { k };
                    }
                }
            }
            self.gen.fill_target = None;
            if self.gen.clear_after_fill {
                self.gen.clear_after_fill = false;
                self.gen.fill_target = Some(Self::draw_fill_target(&self.cfg, r));
                return Op::OClear;
            }
        }
        for _ in 0..8 {
            let which = r.weighted(&self.gen.w.clone());
            match which {
                W_INS => {
                    if self.model.len() >= self.gen.max_pop {
                        if let Some(k) = self.pick_present(r) {
                            return Op::ODel { k };
                        }
                    }
                    for _ in 0..6 {
                        let k = self.pick_key(r);
                        if !self.model.contains_key(&k) {
                            if self.gen.walk_after_mut {
                                self.gen.pending.push_back(Op::OWalk);
                            }
                            return Op::OIns { k };
                        }
                    }
                }
                W_DEL => {
                    if let Some(k) = self.pick_present(r) {
                        if self.gen.walk_after_mut {
                            self.gen.pending.push_back(Op::OWalk);
                        }
                        return Op::ODel { k };
                    }
                }
                W_DEL_ABSENT => {
                    let k = self.pick_probe(r);
                    return Op::ODel { k };
                }
                W_GET => return Op::OGet { k: self.pick_probe(r) },
                W_FIRST => return Op::OFirst { p: self.pick_probe(r) },
                W_HREAD => return Op::OHRead { p: self.pick_probe(r) },
                W_HWRITE | W_HDEL => {
                    // outside C08's own runs the handle is taken for an exact stored key, so that
                    // the probe classes of the handle query (C08) do not leak into other checks
                    let exact_only = !self.cfg.has(O_OHANDLE | O_OFIRST | O_CRASH | O_TWIN | O_TORN);
                    let p = if exact_only || r.chance(1, 2) {
                        match self.pick_present(r) {
                            Some(k) => k,
                            None => continue,
                        }
                    } else {
                        self.pick_probe(r)
                    };
                    return if which == W_HWRITE { Op::OHWrite { p } } else { Op::OHDel { p } };
                }
                W_HOLD => {
                    if let Some(k) = self.pick_present(r) {
                        return Op::OHold { k };
                    }
                }
                W_NEXT | W_PREV => {
                    if self.model.len() > 50_000 {
                        if let Some(k) = self.pick_present(r) {
                            return if which == W_NEXT { Op::ONext { k } } else { Op::OPrev { k } };
                        }
                    }
                    if !self.model.is_empty() {
                        let ks: Vec<i32> = self.model.keys().copied().collect();
                        let k = match r.below(4) {
                            0 => ks[0],
                            1 => ks[ks.len() - 1],
                            _ => *r.pick(&ks),
                        };
                        return if which == W_NEXT { Op::ONext { k } } else { Op::OPrev { k } };
                    }
                }
                W_WALK => {
                    if self.is_set {
                        return Op::OWalk;
                    }
                }
                W_EMPTY => return Op::OEmpty,
                W_CLEAR => {
                    if r.below(100) < self.gen.fill_pct {
                        self.gen.fill_target = Some(Self::draw_fill_target(&self.cfg, r));
                    }
                    return Op::OClear;
                }
                _ => {}
            }
        }
        Op::OGet { k: self.cfg.key_lo }
    }

    fn now(&self) -> i64 {
        0
    }
}
