//! Minimisation of a failing trace: delta debugging over the step list, then
//! argument and configuration simplification, while the failure keeps the same
//! classification. Every candidate runs in a fresh child process through the
//! contract sanitiser, so a shrunk trace can never leave the preconditions.

use crate::child::{exec_trace_in_child_wd, ChildOutcome};
use crate::op::{Failure, Op, Step};
use crate::runner::Trace;
use std::time::{Duration, Instant};

pub struct Shrunk {
    pub trace: Trace,
    pub failure: Failure,
    pub candidates: u64,
}

struct Sh {
    sig: String,
    best: Trace,
    best_failure: Failure,
    cands: u64,
    deadline: Instant,
    max_cands: u64,
    limit: Duration,
}

impl Sh {
    /// Try a candidate; adopt it (as the executed, truncated step list) when the same failure persists.
    fn try_adopt(&mut self, cand: &Trace) -> bool {
        if self.cands >= self.max_cands || Instant::now() > self.deadline {
            return false;
        }
        self.cands += 1;
        let res = exec_trace_in_child_wd(cand, self.limit, 8);
        if std::env::var("VERIF_DEBUG_SHRINK").is_ok() {
            eprintln!("shrink cand {} steps={} -> {:?}", self.cands, cand.steps.len(), match &res { ChildOutcome::Fail(f, st) => format!("FAIL {} ({} steps)", f.sig(), st.len()), o => format!("{:?}", o) });
        }
        match res {
            ChildOutcome::Fail(f, steps) if f.sig() == self.sig => {
                let mut t = cand.clone();
                if !steps.is_empty() {
                    t.steps = steps;
                }
                let smaller = t.steps.len() < self.best.steps.len() || (t.steps.len() == self.best.steps.len() && weight(&t) < weight(&self.best));
                if smaller {
                    self.best = t;
                    self.best_failure = f;
                    return true;
                }
                false
            }
            _ => false,
        }
    }
}

fn num_weight(x: i64) -> u128 {
    (x as i128).unsigned_abs()
}

fn weight(t: &Trace) -> u128 {
    let mut w: u128 = t.cfg.cap as u128 + num_weight(t.cfg.key_lo as i64) + num_weight(t.cfg.t0 as i64) + (t.cfg.seg_hi as i128 - t.cfg.seg_lo as i128).unsigned_abs();
    for s in &t.steps {
        for n in op_nums(&s.op) {
            w += num_weight(n);
        }
        w += s.panic_at.unwrap_or(0) as u128;
    }
    w
}

fn op_nums(op: &Op) -> Vec<i64> {
    match op {
        Op::Tick { dt } => vec![*dt as i64],
        Op::KIns { k, exp } => vec![*k as i64, *exp as i64],
        Op::KGet { k, pexp } | Op::KLess { k, pexp } | Op::KLeq { k, pexp } => vec![*k as i64, *pexp as i64],
        Op::KLeqBy { k, fl } => vec![*k as i64, *fl as i64],
        Op::KClear { restart } | Op::SClear { restart } => vec![*restart as i64],
        Op::KExport { dt } => vec![*dt as i64],
        Op::OIns { k } | Op::ODel { k } | Op::OGet { k } | Op::OHold { k } | Op::ONext { k } | Op::OPrev { k } => vec![*k as i64],
        Op::OFirst { p } | Op::OHRead { p } | Op::OHWrite { p } | Op::OHDel { p } => vec![*p as i64],
        Op::OBulk { n, pat } => vec![*n as i64, *pat as i64],
        Op::KBulk { n, pat } => vec![*n as i64, *pat as i64],
        Op::SIns { a, b, exp } => vec![*a, *b, *exp as i64],
        Op::SBulk { a, b, n, exp } => vec![*a, *b, *n as i64, *exp as i64],
        Op::SQuery { a, b, take } => vec![*a, *b, *take as i64],
        _ => vec![],
    }
}

fn with_num(op: &Op, idx: usize, v: i64) -> Op {
    let mut o = op.clone();
    let i = v as i32;
    match (&mut o, idx) {
        (Op::Tick { dt }, 0) => *dt = i,
        (Op::KIns { k, .. }, 0) => *k = i,
        (Op::KIns { exp, .. }, 1) => *exp = i,
        (Op::KGet { k, .. }, 0) | (Op::KLess { k, .. }, 0) | (Op::KLeq { k, .. }, 0) | (Op::KLeqBy { k, .. }, 0) => *k = i,
        (Op::KGet { pexp, .. }, 1) | (Op::KLess { pexp, .. }, 1) | (Op::KLeq { pexp, .. }, 1) => *pexp = i,
        (Op::KLeqBy { fl, .. }, 1) => *fl = i.clamp(0, 2) as u8,
        (Op::KClear { restart }, 0) | (Op::SClear { restart }, 0) => *restart = i,
        (Op::KExport { dt }, 0) => *dt = i,
        (Op::OIns { k }, 0) | (Op::ODel { k }, 0) | (Op::OGet { k }, 0) | (Op::OHold { k }, 0) | (Op::ONext { k }, 0) | (Op::OPrev { k }, 0) => *k = i,
        (Op::OFirst { p }, 0) | (Op::OHRead { p }, 0) | (Op::OHWrite { p }, 0) | (Op::OHDel { p }, 0) => *p = i,
        (Op::OBulk { n, .. }, 0) => *n = i.max(1),
        (Op::KBulk { n, .. }, 0) => *n = i.max(1),
        (Op::KBulk { pat, .. }, 1) => *pat = i.clamp(0, 9) as u8,
        (Op::OBulk { pat, .. }, 1) => *pat = i.clamp(0, 4) as u8,
        (Op::SIns { a, .. }, 0) | (Op::SQuery { a, .. }, 0) | (Op::SBulk { a, .. }, 0) => *a = v,
        (Op::SIns { b, .. }, 1) | (Op::SQuery { b, .. }, 1) | (Op::SBulk { b, .. }, 1) => *b = v,
        (Op::SBulk { n, .. }, 2) => *n = i.max(1),
        (Op::SBulk { exp, .. }, 3) => *exp = i,
        (Op::SIns { exp, .. }, 2) => *exp = i,
        (Op::SQuery { take, .. }, 2) => *take = i,
        _ => {}
    }
    o
}

/// "prefer the simpler operation"
fn simpler_ops(op: &Op) -> Vec<Op> {
    match op {
        Op::KLeqBy { k, fl } if *fl != 0 => vec![Op::KLeq { k: *k, pexp: 0 }, Op::KLeqBy { k: *k, fl: 0 }],
        Op::KLeqBy { k, .. } => vec![Op::KLeq { k: *k, pexp: 0 }],
        Op::KSweep => vec![],
        Op::OHDel { p } => vec![Op::ODel { k: *p }],
        Op::OHRead { p } => vec![Op::OGet { k: *p }],
        Op::OWalk => vec![],
        Op::SQuery { a, b, take } if *take != -1 => vec![Op::SQuery { a: *a, b: *b, take: -1 }],
        _ => vec![],
    }
}

/// Order-preserving renumbering of all time values (clock positions and
/// expirations): only comparisons between them matter to the library.
fn compress_times(t: &Trace) -> Trace {
    use std::collections::BTreeSet;
    let sat = |a: i64, b: i64| (a + b).min(i32::MAX as i64);
    let mut now = t.cfg.t0 as i64;
    let mut times: BTreeSet<i64> = BTreeSet::new();
    times.insert(now);
    for s in &t.steps {
        match s.op {
            Op::Tick { dt } => {
                now = sat(now, dt.max(0) as i64);
                times.insert(now);
            }
            Op::KIns { exp, .. } | Op::SIns { exp, .. } | Op::SBulk { exp, .. } => {
                times.insert(exp as i64);
            }
            Op::KExport { dt } => {
                times.insert(sat(now, dt.max(0) as i64));
            }
            Op::KClear { restart } | Op::SClear { restart } => {
                if restart >= 0 && (restart as i64) < now {
                    now = restart as i64;
                    times.insert(now);
                }
            }
            _ => {}
        }
    }
    let max = i32::MAX as i64;
    let order: Vec<i64> = times.iter().copied().filter(|x| *x != max).collect();
    let rank = |x: i64| -> i64 {
        if x == max {
            max
        } else {
            order.binary_search(&x).map(|i| i as i64).unwrap_or(0)
        }
    };
    let mut out = t.clone();
    let mut now = t.cfg.t0 as i64;
    out.cfg.t0 = rank(now) as i32;
    for s in out.steps.iter_mut() {
        match &mut s.op {
            Op::Tick { dt } => {
                let new_now = sat(now, (*dt).max(0) as i64);
                *dt = (rank(new_now) - rank(now)) as i32;
                now = new_now;
            }
            Op::KIns { exp, .. } | Op::SIns { exp, .. } | Op::SBulk { exp, .. } => *exp = rank(*exp as i64) as i32,
            Op::KExport { dt } => {
                let at = sat(now, (*dt).max(0) as i64);
                *dt = (rank(at) - rank(now)).max(0) as i32;
            }
            Op::KClear { restart } | Op::SClear { restart } => {
                if *restart >= 0 && (*restart as i64) < now {
                    now = *restart as i64;
                    *restart = rank(now) as i32;
                } else {
                    *restart = -1;
                }
            }
            Op::KGet { pexp, .. } | Op::KLess { pexp, .. } | Op::KLeq { pexp, .. } => *pexp = 0,
            _ => {}
        }
    }
    out
}

/// Order-preserving renumbering of all keys and probes.
fn compress_keys(t: &Trace) -> Trace {
    use std::collections::BTreeSet;
    if t.cfg.world == crate::core::WorldKind::Seg {
        return t.clone();
    }
    let mut keys: BTreeSet<i64> = BTreeSet::new();
    for s in &t.steps {
        if matches!(s.op, Op::OBulk { .. } | Op::KBulk { .. }) {
            // keys of a bulk build are implied by its size: leave such traces alone
            return t.clone();
        }
        if !matches!(s.op, Op::Tick { .. } | Op::KClear { .. } | Op::KExport { .. } | Op::SClear { .. }) {
            if let Some(k) = op_nums(&s.op).first() {
                keys.insert(*k);
            }
        }
    }
    let order: Vec<i64> = keys.into_iter().collect();
    let mut out = t.clone();
    out.cfg.key_lo = 0;
    out.cfg.universe = (order.len() as i32).max(3);
    for s in out.steps.iter_mut() {
        if !matches!(s.op, Op::Tick { .. } | Op::KClear { .. } | Op::KExport { .. } | Op::SClear { .. }) {
            if let Some(k) = op_nums(&s.op).first() {
                let r = order.binary_search(k).map(|i| i as i64).unwrap_or(0);
                s.op = with_num(&s.op, 0, r);
            }
        }
    }
    out
}

pub fn shrink(trace: &Trace, failure: &Failure, budget: Duration, max_cands: u64) -> Shrunk {
    let mut sh = Sh { sig: failure.sig(), best: trace.clone(), best_failure: failure.clone(), cands: 0, deadline: Instant::now() + budget, max_cands, limit: Duration::from_secs(150) };
    // hangs are expensive to re-execute: keep the candidate count low
    if failure.class == "hang" {
        sh.max_cands = sh.max_cands.min(40);
    }

    // 1. delta debugging over the step list
    let mut chunk = (sh.best.steps.len() / 2).max(1);
    loop {
        let mut progress = false;
        let mut start = 0usize;
        while start < sh.best.steps.len() {
            let n = sh.best.steps.len();
            let end = (start + chunk).min(n);
            if end - start == n {
                break;
            }
            let mut cand = sh.best.clone();
            cand.steps.drain(start..end);
            if sh.try_adopt(&cand) {
                progress = true;
                // keep `start`: the list shifted left
            } else {
                start = end;
            }
            if sh.cands >= sh.max_cands || Instant::now() > sh.deadline {
                break;
            }
        }
        if sh.cands >= sh.max_cands || Instant::now() > sh.deadline {
            break;
        }
        if chunk == 1 {
            if !progress {
                break;
            }
        } else {
            chunk = (chunk / 2).max(1);
        }
    }

    for _round in 0..2 {
        // 1b. canonical renumbering of times and keys, then drop what became a no-op
        let c = compress_times(&sh.best);
        sh.try_adopt(&c);
        let c = compress_keys(&sh.best);
        sh.try_adopt(&c);
        let mut i = 0;
        while i < sh.best.steps.len() {
            if matches!(sh.best.steps[i].op, Op::Tick { dt: 0 }) {
                let mut c = sh.best.clone();
                c.steps.remove(i);
                if sh.try_adopt(&c) {
                    continue;
                }
            }
            i += 1;
        }
        // merge adjacent ticks
        let mut i = 0;
        while i + 1 < sh.best.steps.len() {
            if let (Op::Tick { dt: a }, Op::Tick { dt: b }) = (sh.best.steps[i].op.clone(), sh.best.steps[i + 1].op.clone()) {
                let mut c = sh.best.clone();
                c.steps[i].op = Op::Tick { dt: a.saturating_add(b) };
                c.steps.remove(i + 1);
                if sh.try_adopt(&c) {
                    continue;
                }
            }
            i += 1;
        }

    }

    // 2. configuration simplification
    for _ in 0..2 {
        let mut c = sh.best.clone();
        if c.cfg.cap != 8 {
            c.cfg.cap = 8;
            sh.try_adopt(&c);
        }
        let mut c = sh.best.clone();
        if c.cfg.t0 != 0 {
            // shift the whole time line down to zero
            let d = c.cfg.t0;
            c.cfg.t0 = 0;
            for s in c.steps.iter_mut() {
                match &mut s.op {
                    Op::KIns { exp, .. } | Op::SIns { exp, .. } | Op::SBulk { exp, .. } => {
                        if *exp != i32::MAX {
                            *exp = exp.saturating_sub(d)
                        }
                    }
                    Op::KGet { pexp, .. } | Op::KLess { pexp, .. } | Op::KLeq { pexp, .. } => *pexp = 0,
                    _ => {}
                }
            }
            sh.try_adopt(&c);
        }
        let mut c = sh.best.clone();
        let has_bulk = c.steps.iter().any(|s| matches!(s.op, Op::OBulk { .. } | Op::KBulk { .. }));
        if c.cfg.key_lo != 0 && c.cfg.world != crate::core::WorldKind::Seg && !has_bulk {
            let d = c.cfg.key_lo;
            c.cfg.key_lo = 0;
            for s in c.steps.iter_mut() {
                let nums = op_nums(&s.op);
                if !nums.is_empty() && !matches!(s.op, Op::Tick { .. } | Op::KClear { .. } | Op::KExport { .. }) {
                    s.op = with_num(&s.op, 0, nums[0] - d as i64);
                }
            }
            sh.try_adopt(&c);
        }
        let mut c = sh.best.clone();
        if c.cfg.universe > 16 && !c.steps.iter().any(|s| matches!(s.op, Op::OBulk { .. } | Op::KBulk { .. })) {
            c.cfg.universe = 16;
            sh.try_adopt(&c);
        }
    }

    // 3. simpler operations, then smaller arguments
    for pass in 0..3 {
        let mut any = false;
        let mut i = 0;
        while i < sh.best.steps.len() {
            for alt in simpler_ops(&sh.best.steps[i].op) {
                let mut c = sh.best.clone();
                c.steps[i].op = alt;
                if sh.try_adopt(&c) {
                    any = true;
                    break;
                }
            }
            if i >= sh.best.steps.len() {
                break;
            }
            let nums = op_nums(&sh.best.steps[i].op);
            for (ai, v) in nums.iter().enumerate() {
                let mut tries: Vec<i64> = vec![0, 1, v / 2, v - 1, v + 1];
                if pass > 0 {
                    tries = vec![v - 1];
                }
                tries.dedup();
                for nv in tries {
                    if nv == *v || num_weight(nv) >= num_weight(*v) {
                        continue;
                    }
                    if i >= sh.best.steps.len() {
                        break;
                    }
                    let mut c = sh.best.clone();
                    c.steps[i].op = with_num(&c.steps[i].op, ai, nv);
                    if sh.try_adopt(&c) {
                        any = true;
                        break;
                    }
                }
            }
            if let Some(j) = sh.best.steps.get(i).and_then(|s| s.panic_at) {
                if j > 0 {
                    let mut c = sh.best.clone();
                    c.steps[i].panic_at = Some(j - 1);
                    if sh.try_adopt(&c) {
                        any = true;
                    }
                }
            }
            i += 1;
            if sh.cands >= sh.max_cands || Instant::now() > sh.deadline {
                break;
            }
        }
        if !any || sh.cands >= sh.max_cands || Instant::now() > sh.deadline {
            break;
        }
    }
    let _ = Step::plain(Op::KEmpty);
    Shrunk { trace: sh.best, failure: sh.best_failure, candidates: sh.cands }
}
