//! Per-property definitions: which world(s), collections and oracles a check
//! drives, how the swarm configuration of a run is drawn, and the budgets of
//! the two tiers.

use crate::core::*;
use crate::rng::Rng;

pub struct PropDef {
    pub id: &'static str,
    pub title: &'static str,
    pub level: &'static str,
    /// runs per tier (quick, thorough)
    pub runs: (u64, u64),
    pub design_ref: &'static str,
}

pub const PROPS: &[PropDef] = &[
    PropDef { id: "C01", title: "KeyExpTree predecessor queries match the reference", level: "exploration", runs: (120_000, 6_000_000), design_ref: "4/C01" },
    PropDef { id: "C02", title: "all three trees stay valid red-black search trees", level: "exploration", runs: (90_000, 4_000_000), design_ref: "4/C02" },
    PropDef { id: "C03", title: "segment tree range query yields each live overlapping value exactly once", level: "exploration", runs: (200_000, 10_000_000), design_ref: "4/C03" },
    PropDef { id: "C04", title: "ordered map behaves as a map", level: "exploration", runs: (100_000, 5_000_000), design_ref: "4/C04" },
    PropDef { id: "C05", title: "ordered set finds, keeps and removes keyed values exactly", level: "exploration", runs: (100_000, 5_000_000), design_ref: "4/C05" },
    PropDef { id: "C06", title: "KeyExpTree exact lookup", level: "exploration", runs: (120_000, 6_000_000), design_ref: "4/C06" },
    PropDef { id: "C07", title: "ordered export is exactly the live entries in key order", level: "exploration", runs: (150_000, 6_000_000), design_ref: "4/C07" },
    PropDef { id: "C08", title: "predecessor handles designate the right entry", level: "exploration", runs: (100_000, 5_000_000), design_ref: "4/C08" },
    PropDef { id: "C09", title: "set neighbour steps walk the keys in order and stop at the ends", level: "exploration", runs: (100_000, 5_000_000), design_ref: "4/C09" },
    PropDef { id: "C10", title: "no out-of-bounds access, panic, overflow or hang within the contract", level: "exploration", runs: (160_000, 8_000_000), design_ref: "4/C10" },
    PropDef { id: "C11", title: "arena slots never double-used or lost; storage bounded", level: "exploration", runs: (60_000, 600_000), design_ref: "4/C11" },
    PropDef { id: "C12", title: "clear() gives a collection indistinguishable from a new one", level: "exploration", runs: (100_000, 5_000_000), design_ref: "4/C12" },
    PropDef { id: "C13", title: "sorted-list variants agree with the reference semantics", level: "exploration", runs: (120_000, 6_000_000), design_ref: "4/C13" },
    PropDef { id: "C16", title: "expired values are physically dropped from scanned bucket lists", level: "exploration", runs: (200_000, 10_000_000), design_ref: "4/C16" },
    PropDef { id: "C17", title: "map and set handles stay valid across insertions", level: "exploration", runs: (100_000, 5_000_000), design_ref: "4/C17" },
    PropDef { id: "C18", title: "a panicking user callback leaves every collection valid and un-torn", level: "fault_enumeration", runs: (24_000, 1_200_000), design_ref: "4/C18" },
    PropDef { id: "C19", title: "ordered export allocates in proportion to the entry count", level: "exploration", runs: (1_600, 8_000), design_ref: "4/C19" },
    PropDef { id: "C20", title: "only live keys are handed to the caller's comparison code", level: "exploration", runs: (120_000, 6_000_000), design_ref: "4/C20" },
];

pub fn find(id: &str) -> Option<&'static PropDef> {
    PROPS.iter().find(|p| p.id == id)
}

/// Parameters of one run that are not part of the world configuration.
pub struct RunPlan {
    pub cfg: Cfg,
    pub len: usize,
    /// C19: bulk shape (entries, insertion order 0 asc / 1 desc / 2 random / 3 outward from the middle / 4 inward from both ends / 5 lower half asc then upper half desc, churn)
    pub bulk: Option<(usize, u8, bool)>,
    /// ordered map / set: start the run with a bulk build of this many keys in this pattern
    pub ord_bulk: Option<(i32, u8)>,
}

const SEG_LENS: &[i64] = &[17, 18, 31, 32, 33, 63, 64, 65, 100, 255, 256, 1000, 1023, 1024, 1025, 1 << 20, (1 << 20) + 1, 3_000_000, 1 << 31, 1 << 40, (1 << 49) + 1, 1 << 50, (1 << 55) + 3, (1 << 62) + 5];

fn draw_seg_domain(r: &mut Rng) -> (u8, i64, i64) {
    let len = *r.pick(SEG_LENS);
    // candidate coordinate types that can hold a domain of this length
    let mut tys: Vec<u8> = vec![3];
    if len <= 1 << 31 {
        tys.push(0);
        tys.push(0);
    }
    if len <= 65535 {
        tys.push(1);
    }
    if len <= 256 {
        tys.push(2);
    }
    let ty = *r.pick(&tys);
    let (tmin, tmax): (i64, i64) = match ty {
        0 => (i32::MIN as i64, i32::MAX as i64),
        1 => (i16::MIN as i64, i16::MAX as i64),
        2 => (0, 255),
        _ => (-(1i64 << 62), (1i64 << 62) - 1),
    };
    let lo = match r.below(6) {
        0 => 0,
        1 => -len / 2,
        2 => -len + 1,
        3 => -10241,
        4 => 7,
        _ => tmin,
    };
    let lo = lo.clamp(tmin, tmax - len + 1);
    (ty, lo, lo + len - 1)
}

fn base_cfg(prop: &str, world: WorldKind, colls: u8, oracles: u32, r: &mut Rng) -> Cfg {
    let universe = *r.pick(&[3, 5, 8, 8, 16, 16, 64, 1024, 1 << 20]);
    // capacity hints: the documented small ones, and now and then one beyond 4 096 / 65 536 slots
    let cap = match r.below(40) {
        0 => 5000usize,
        1 => 70_000,
        _ => *r.pick(&[0usize, 1, 8, 8, 9, 64, 1000]),
    };
    let key_lo = *r.pick(&[0, 0, -5, 1000, -(1 << 20), i32::MAX - (1 << 21)]);
    // the clock is a sweep-line coordinate: negative origins are as ordinary as positive ones
    let t0 = *r.pick(&[0, 0, 0, 5, 1000, 1 << 30, -3, -1000, i32::MIN + 7]);
    let (seg_ty, seg_lo, seg_hi) = if world == WorldKind::Seg { draw_seg_domain(r) } else { (0, 0, 31) };
    // the process-outcome check also constructs domains the constructor must refuse (1 to 16
    // points): refusing is the normal return, a panic in `new` is not
    let (seg_lo, seg_hi) = if world == WorldKind::Seg && oracles & O_CRASH != 0 && r.chance(1, 30) { (seg_lo, seg_lo + *r.pick(&[0i64, 0, 1, 3, 4, 14, 15])) } else { (seg_lo, seg_hi) };
    let sweep_mode = if matches!(world, WorldKind::Map | WorldKind::Set) && r.chance(1, 3) { 1 } else { 0 };
    // a third of the expiring-key runs use the narrow instantiation (8-bit clock)
    // ... and a quarter of the ordered map / set runs the plain one (MapTree<i32, u32>,
    // SetTree<i32, i32>: small uninstrumented types, so not for the callback-panic check)
    // (and a tenth of either the fat one: 280-byte keys / 272-byte values)
    let key_ty = match world {
        // (zero-sized values, `KeyExpTree<K, u8, ()>`, only where nothing but the process outcome
        // and the export's length is looked at)
        WorldKind::Key => match r.below(20) {
            0..=5 => 1,
            6 | 7 => 2,
            8 if oracles & !(O_CRASH | O_KEXPORT | O_CAP) == 0 => 3,
            _ => 0,
        },
        WorldKind::Map | WorldKind::Set => match r.below(20) {
            0..=4 if oracles & O_TORN == 0 => 1,
            5 | 6 if oracles & O_TORN == 0 => 2,
            _ => 0,
        },
        // a third of the segment-tree runs: 8-bit expirations, a 20-byte value
        WorldKind::Seg => r.chance(1, 3) as u8,
    };
    // the plain map packs (key offset, version) into its 32-bit value for universes up to 1024
    // keys; over larger ones the value is the (unique) version alone
    let t0 = if (key_ty == 1 || key_ty == 3) && world != WorldKind::Map && world != WorldKind::Set { *r.pick(&[0, 0, 0, 5, 100, 250]) } else { t0 };
    Cfg { prop: prop.to_string(), world, colls, oracles, cap, key_lo, universe, seg_ty, seg_lo, seg_hi, t0, sweep_mode, key_ty }
}

fn draw_len(r: &mut Rng, thorough: bool) -> usize {
    match r.below(10) {
        0 => r.range(3, 6) as usize,
        1 | 2 => r.range(6, 15) as usize,
        3 | 4 | 5 => r.range(15, 50) as usize,
        6 | 7 => r.range(50, 150) as usize,
        8 => r.range(150, 400) as usize,
        _ => {
            if thorough {
                r.range(400, 2000) as usize
            } else {
                r.range(100, 400) as usize
            }
        }
    }
}

/// Draw the plan of run `index` of property `prop` (first draws from the run's PRNG).
pub fn draw_plan(prop: &str, index: u64, r: &mut Rng, thorough: bool) -> RunPlan {
    let pick_world3 = |i: u64| match i % 3 {
        0 => WorldKind::Map,
        1 => WorldKind::Set,
        _ => WorldKind::Key,
    };
    let mut bulk = None;
    let mut return_giant = false;
    let mut len = draw_len(r, thorough);
    let cfg = match prop {
        "C01" => base_cfg(prop, WorldKind::Key, C_TREE, O_KPRED | O_KEMPTY, r),
        "C02" => base_cfg(prop, pick_world3(index), C_TREE, O_STRUCT, r),
        "C03" => base_cfg(prop, WorldKind::Seg, C_TREE, O_SQUERY, r),
        "C04" => base_cfg(prop, WorldKind::Map, C_TREE, O_OGET, r),
        "C05" => base_cfg(prop, WorldKind::Set, C_TREE, O_OGET, r),
        "C06" => base_cfg(prop, WorldKind::Key, C_TREE, O_KGET, r),
        "C07" => {
            let mut c = base_cfg(prop, WorldKind::Key, C_TREE | C_LIST, O_KEXPORT, r);
            // a few exports of very large (deep) trees: out of reach of short histories
            if index % (if thorough { 40_000 } else { 10_000 }) == 13 {
                let n = *r.pick(&[100_000usize, 200_000, 262_145, 300_000]);
                c.universe = (2 * n as i32 + 8).max(16);
                c.key_lo = 0;
                c.colls = C_TREE;
                c.key_ty = 0;
                c.t0 = c.t0.min(1 << 30);
                bulk = Some((n, r.below(6) as u8, r.chance(1, 3)));
                len = n + 2;
            }
            c
        }
        "C08" => base_cfg(prop, if index % 2 == 0 { WorldKind::Map } else { WorldKind::Set }, C_TREE, O_OFIRST | O_OHANDLE, r),
        "C09" => base_cfg(prop, WorldKind::Set, C_TREE, O_ONEIGH, r),
        "C10" => {
            let w = match index % 4 {
                0 => WorldKind::Map,
                1 => WorldKind::Set,
                2 => WorldKind::Key,
                _ => WorldKind::Seg,
            };
            base_cfg(prop, w, C_TREE | C_LIST, O_CRASH, r)
        }
        "C11" => {
            let mut c = base_cfg(prop, pick_world3(index), C_TREE, O_ARENA, r);
            if c.cap < 5000 {
                c.cap = *r.pick(&[0usize, 1, 8, 9, 9, 64, 1000]);
            }
            // long churn at small live population
            if r.chance(1, 3) {
                len = if thorough { r.range(2000, 20000) as usize } else { r.range(500, 3000) as usize };
                c.universe = *r.pick(&[5, 8, 16, 64]);
            }
            c
        }
        "C12" => {
            let w = match index % 4 {
                0 => WorldKind::Map,
                1 => WorldKind::Set,
                2 => WorldKind::Key,
                _ => WorldKind::Seg,
            };
            base_cfg(prop, w, C_TREE | C_LIST, O_TWIN, r)
        }
        "C13" => {
            let w = pick_world3(index);
            let o = if w == WorldKind::Key { O_KPRED | O_KGET | O_KEMPTY } else { O_OGET | O_OFIRST | O_OHANDLE | O_ONEIGH };
            base_cfg(prop, w, C_LIST, o, r)
        }
        "C16" => base_cfg(prop, WorldKind::Seg, C_TREE, O_SDROP, r),
        "C17" => base_cfg(prop, if index % 2 == 0 { WorldKind::Map } else { WorldKind::Set }, C_TREE, O_OHOLD, r),
        "C18" => {
            // one collection per run, all seven in turn
            let (w, c) = match index % 7 {
                0 => (WorldKind::Map, C_TREE),
                1 => (WorldKind::Map, C_LIST),
                2 => (WorldKind::Set, C_TREE),
                3 => (WorldKind::Set, C_LIST),
                4 => (WorldKind::Key, C_TREE),
                5 => (WorldKind::Key, C_LIST),
                _ => (WorldKind::Seg, C_TREE),
            };
            let mut cfg = base_cfg(prop, w, c, O_TORN, r);
            cfg.universe = *r.pick(&[3, 5, 8, 16]);
            len = if thorough { r.range(3, 40) as usize } else { r.range(3, 15) as usize };
            cfg
        }
        "C19" => {
            let mut c = base_cfg(prop, WorldKind::Key, C_TREE | C_LIST, O_CAP, r);
            let sizes: &[usize] = if thorough {
                &[0, 1, 2, 3, 7, 8, 9, 15, 16, 17, 31, 33, 63, 64, 65, 127, 128, 129, 255, 257, 511, 513, 1023, 1025, 2047, 4095, 4097, 8191, 16383, 16385, 32767, 65535, 65537, 131071, 262143, 524287, 1 << 20, (1 << 20) + 1, 1 << 22]
            } else {
                &[0, 1, 2, 3, 7, 8, 9, 15, 16, 17, 31, 33, 63, 64, 65, 127, 128, 129, 255, 257, 511, 513, 1023, 1025, 2047, 4095, 4097, 8191, 16383, 16385, 32767, 65537, 200_000, 262_145]
            };
            // boundary sizes most of the time, any size in between otherwise
            if (index / 3) % 2 == 1 && !(thorough && index % 4_000 == 2_003) {
                // general histories: the arena may have been much fuller earlier than it is at export time
                c.universe = *r.pick(&[64, 1024, 1 << 20]);
                return RunPlan { cfg: c, len: draw_len(r, thorough).max(if r.chance(1, 2) { 200 } else { 40 }), bulk: None, ord_bulk: None };
            }
            if thorough && index % 4_000 == 2_003 {
                // giant build, see the end of this function
                len = 8;
                return_giant = true;
            }
            let n = if r.chance(2, 3) { *r.pick(sizes) } else { r.range(0, if thorough { 300_000 } else { 20_000 }) as usize };
            let order = r.below(6) as u8;
            let churn = r.chance(1, 3);
            c.universe = (2 * n as i32 + 8).max(16);
            c.key_lo = 0;
            if n > 6000 {
                // keep the sorted-list twin out of quadratic insertion cost
                c.colls = C_TREE;
            }
            if !return_giant {
                bulk = Some((n, order, churn));
                len = n + 2;
            }
            c.key_ty = 0;
            c
        }
        "C20" => base_cfg(prop, WorldKind::Key, C_TREE | C_LIST, O_MON, r),
        _ => panic!("unknown property {}", prop),
    };
    // an arena of tens of thousands of slots is snapshotted after every operation by the
    // structural checks: affordable for short histories only
    let mut cfg = cfg;
    if cfg.cap > 10_000 && len > 60 {
        cfg.cap = 5000;
    }
    if cfg.cap >= 5000 && len > 600 {
        cfg.cap = 1000;
    }
    // large trees (deeper than 32 levels) are out of reach of short histories: a few runs of the
    // tree-only map / set checks start from a bulk build
    let mut ord_bulk = None;
    let mut cfg = cfg;
    let bulk_every = if thorough { 20_000 } else { 5_000 };
    if matches!(cfg.world, WorldKind::Map | WorldKind::Set) && cfg.colls == C_TREE && !cfg.has(O_TORN) && index % bulk_every == 11 {
        let n = *r.pick(&[150_000, 300_000, 524_288, 1_048_576 + 11, 1_048_576 + 11]);
        let _ = n;
        let pat = *r.pick(&[0u8, 1, 2, 2, 3, 4]);
        cfg.key_lo = 0;
        cfg.universe = n + 16;
        cfg.cap = *r.pick(&[0usize, 8, 1000]);
        ord_bulk = Some((n, pat));
        len = 20 + r.below(10) as usize;
    }
    // a capacity hint of millions of slots (2^23 + 9; thorough also 2^24 + 1), small
    // uninstrumented types, a short history with a clear in it
    let interpreted = crate::runner::MAX_LEN.load(std::sync::atomic::Ordering::Relaxed) != usize::MAX;
    if interpreted {
        // under Miri the construction of a large arena alone takes minutes
        cfg.cap = cfg.cap.min(1000);
    }
    // (prime strides: the runs spread over all workers and over all residues that select worlds)
    let huge_stride = if cfg.has(O_STRUCT | O_ARENA | O_TWIN) { 25_013 } else { 2_503 };
    if index % huge_stride == 4 && !interpreted && cfg.world != WorldKind::Seg && !cfg.has(O_TORN) && !cfg.has(O_CAP) && bulk.is_none() && ord_bulk.is_none() {
        cfg.key_ty = 1;
        cfg.cap = if thorough && r.chance(1, 2) { (1 << 24) + 1 } else { (1 << 23) + 9 };
        cfg.universe = cfg.universe.min(64);
        if cfg.world == WorldKind::Key {
            cfg.t0 = cfg.t0.clamp(0, 250);
        }
        // short where every operation is followed by a snapshot of the (huge) arena
        len = if cfg.has(O_STRUCT | O_ARENA) { 10 + r.below(6) as usize } else { 40 + r.below(120) as usize };
    }
    // bulk builds with mass expiry (expiring-key world) / tens of thousands of copies in one
    // range (segment tree): the scale at which a single call meets 10^5 expired entries
    // (ten times as often in the process-outcome check, whose extra pass on an unoptimised build
    // covers only its first few thousand runs)
    let mass_stride = if cfg.has(O_CRASH) {
        if thorough {
            1_009
        } else {
            101
        }
    } else {
        4_001
    };
    if index % mass_stride == 9 && !interpreted && !cfg.has(O_TORN) && bulk.is_none() && ord_bulk.is_none() && cfg.cap <= 1_000_000 {
        match cfg.world {
            WorldKind::Key => {
                // the sorted list limits the size (quadratic otherwise): leave it out half of the time
                if cfg.colls == C_TREE | C_LIST && !cfg.has(O_KEXPORT | O_CAP | O_MON) && r.chance(1, 2) {
                    cfg.colls = C_TREE;
                }
                let with_list = cfg.colls & C_LIST != 0;
                let n: i32 = if with_list { 70_000 } else { *r.pick(&[70_000, 150_000, 300_000]) };
                let order = if with_list { 0 } else { r.below(2) as u8 };
                let mode = 1 + r.below(4) as u8;
                cfg.key_lo = 0;
                cfg.universe = 2 * n + 16;
                cfg.cap = cfg.cap.min(1000);
                cfg.t0 = if cfg.key_ty == 1 { cfg.t0.clamp(0, 200) } else { cfg.t0.min(1 << 30) };
                ord_bulk = Some((n, order + 2 * mode));
                len = 20 + r.below(12) as usize;
            }
            WorldKind::Seg => {
                cfg.t0 = if cfg.key_ty == 1 { cfg.t0.clamp(0, 200) } else { cfg.t0.min(1 << 30) };
                ord_bulk = Some((*r.pick(&[40_000, 70_000, 140_000]), r.below(4) as u8));
                len = 14 + r.below(12) as usize;
            }
            _ => {}
        }
    }
    // callback-panic check: every fifth history starts from a population of 70-200 entries set up
    // by one bulk step without crash points (most of them about to expire), so that the few
    // operations that follow - each with every crash point - meet long lists, many lazy removals
    // in one call, bucket lists beyond 64 copies
    if cfg.has(O_TORN) && index % 5 == 1 && !interpreted {
        let n: i32 = *r.pick(&[70, 70, 100, 130, 200]);
        match cfg.world {
            WorldKind::Key => {
                let order = if cfg.colls & C_LIST != 0 { 0 } else { r.below(2) as u8 };
                cfg.key_lo = 0;
                cfg.universe = 2 * n + 8;
                cfg.t0 = if cfg.key_ty == 1 { cfg.t0.clamp(0, 200) } else { cfg.t0.min(1 << 30) };
                ord_bulk = Some((n, order + 2 * (1 + r.below(4) as u8)));
            }
            WorldKind::Seg => {
                cfg.t0 = if cfg.key_ty == 1 { cfg.t0.clamp(0, 200) } else { cfg.t0.min(1 << 30) };
                ord_bulk = Some((n, r.below(4) as u8));
            }
            _ => {
                cfg.key_lo = 0;
                cfg.universe = n + 8;
                ord_bulk = Some((n, *r.pick(&[0u8, 1, 2, 3, 4])));
            }
        }
        len = 4 + r.below(6) as usize;
    }
    // thorough tier only: a giant build of the plain instantiation (2^25 + 7 keys ascending or
    // descending: a root-to-leaf path of 48 entries, beyond any "46 = 1.44 * 32" or "32" bound)
    if thorough && matches!(cfg.world, WorldKind::Map | WorldKind::Set) && cfg.colls == C_TREE && !cfg.has(O_TORN) && (index % 1_000_000) / 3 == 166_692 {
        let n: i32 = (1 << 25) + 7;
        cfg.key_ty = 1;
        cfg.key_lo = 0;
        cfg.universe = n + 16;
        cfg.cap = 8;
        cfg.sweep_mode = 1;
        ord_bulk = Some((n, r.below(2) as u8));
        len = 14 + r.below(6) as usize;
    }
    // ... and of the expiring-key tree (C07: the export of it; C19: its allocation)
    if thorough && bulk.is_none() && ((prop == "C07" && index % 2_000_000 == 1_000_003) || (prop == "C19" && index % 4_000 == 2_003)) {
        let n: i32 = (1 << 25) + 7;
        cfg.key_ty = r.below(2) as u8;
        cfg.colls = C_TREE;
        cfg.key_lo = 0;
        cfg.universe = i32::MAX / 2;
        cfg.cap = 8;
        cfg.t0 = if cfg.key_ty == 1 { 3 } else { 1000 };
        ord_bulk = Some((n, r.below(2) as u8));
        len = 6 + r.below(5) as usize;
    }
    RunPlan { cfg, len, bulk, ord_bulk }
}
