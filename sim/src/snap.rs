//! Structural oracle over the read-only snapshot of an arena-backed tree:
//! search order, link agreement, red-black colouring, sentinel, height bound,
//! slot accounting; plus canonical shape hashing and repair-case
//! classification used as reach measures.

pub const E: u32 = u32::MAX;

#[derive(Clone, Debug)]
pub struct Slot {
    pub parent: u32,
    pub left: u32,
    pub right: u32,
    pub red: bool,
    pub key: i32,
    /// secondary attribute (expiration for the expiring tree, 0 otherwise)
    pub aux: i32,
}

#[derive(Clone, Debug)]
pub struct Snap {
    pub root: u32,
    pub slots: Vec<Slot>,
    pub unused: Vec<u32>,
    pub unused_cap: usize,
}

#[derive(Clone, Debug, Default)]
pub struct StructInfo {
    pub n: usize,
    pub height: usize,
    pub black_height: usize,
    pub shape_hash: u64,
    pub red_root: bool,
    /// slot indices reachable from the root, in key order
    pub inorder: Vec<u32>,
}

#[inline]
fn h64(h: u64, x: u64) -> u64 {
    (h ^ x).wrapping_mul(0x100000001b3).rotate_left(23) ^ 0x9E3779B97F4A7C15
}

/// Checks C02's conditions (i)-(vi). Returns a description of the first
/// violated condition.
pub fn check_structure(s: &Snap) -> Result<StructInfo, String> {
    check_structure_at(s, None)
}

/// `now`: for the expiring tree, the current time - two stored entries may carry the same key
/// only if at least one of them has expired (`aux` = expiration); `None`: keys must be distinct.
pub fn check_structure_at(s: &Snap, now: Option<i32>) -> Result<StructInfo, String> {
    let len = s.slots.len();
    let mut info = StructInfo::default();
    info.shape_hash = 0xcbf29ce484222325;
    if s.root == E {
        return Ok(info);
    }
    if s.root as usize >= len {
        return Err(format!("root index {} out of the arena (len {})", s.root, len));
    }
    if s.root == 0 {
        return Err("the sentinel slot 0 is the root".into());
    }
    if s.slots[s.root as usize].parent != E {
        return Err(format!("root {} has parent {} instead of none", s.root, s.slots[s.root as usize].parent));
    }
    info.red_root = s.slots[s.root as usize].red;
    let mut visited = vec![false; len];
    // explicit stack: (node, lo, hi, depth, blacks, state) state 0 = enter, 1 = after left
    struct Fr {
        node: u32,
        lo: i64,
        hi: i64,
        depth: usize,
        blacks: usize,
        state: u8,
    }
    let mut stack: Vec<Fr> = Vec::with_capacity(64);
    stack.push(Fr { node: s.root, lo: i64::MIN, hi: i64::MAX, depth: 1, blacks: 0, state: 0 });
    let mut leaf_black: Option<usize> = None;
    let mut check_leaf = |blacks: usize, at: u32, side: &str| -> Result<(), String> {
        match leaf_black {
            None => {
                leaf_black = Some(blacks);
                Ok(())
            }
            Some(b) if b == blacks => Ok(()),
            Some(b) => Err(format!(
                "unequal black heights: path to the missing {} child of slot {} passes {} black entries, another path passes {}",
                side, at, blacks, b
            )),
        }
    };
    while let Some(fr) = stack.last_mut() {
        let i = fr.node as usize;
        let nd = &s.slots[i];
        if fr.state == 0 {
            if visited[i] {
                return Err(format!("slot {} is reachable twice (cycle or shared child)", i));
            }
            visited[i] = true;
            let k = nd.key as i64;
            // non-strict: an expired entry may legitimately still be stored next to a
            // newer entry with an equal key (the insertion contract allows re-inserting
            // a key whose old entry has expired); equal *live* keys are the functional
            // oracles' business
            if !(fr.lo <= k && k <= fr.hi) {
                return Err(format!("search order broken at slot {}: key {} not inside [{}, {}]", i, nd.key, fr.lo, fr.hi));
            }
            if !nd.red {
                fr.blacks += 1;
            }
            if fr.depth > info.height {
                info.height = fr.depth;
            }
            info.shape_hash = h64(info.shape_hash, if nd.red { 3 } else { 5 } + ((nd.left != E) as u64) * 16 + ((nd.right != E) as u64) * 32);
            fr.state = 1;
            let (lo, depth, blacks) = (fr.lo, fr.depth, fr.blacks);
            if nd.left != E {
                let c = nd.left;
                if c == 0 {
                    return Err(format!("sentinel slot 0 is linked as left child of slot {}", i));
                }
                if c as usize >= len {
                    return Err(format!("left link of slot {} points outside the arena ({})", i, c));
                }
                let ch = &s.slots[c as usize];
                if ch.parent != i as u32 {
                    return Err(format!("left child {} of slot {} has parent {}", c, i, ch.parent));
                }
                if nd.red && ch.red {
                    return Err(format!("red slot {} has red left child {}", i, c));
                }
                stack.push(Fr { node: c, lo, hi: k, depth: depth + 1, blacks, state: 0 });
            } else {
                check_leaf(blacks, i as u32, "left")?;
            }
        } else if fr.state == 1 {
            if let Some(&p) = info.inorder.last() {
                let prev = &s.slots[p as usize];
                if prev.key == nd.key {
                    let both_live = match now {
                        Some(t) => prev.aux > t && nd.aux > t,
                        None => true,
                    };
                    if both_live {
                        return Err(format!("two stored live entries carry the same key {} (slots {} and {})", nd.key, p, i));
                    }
                }
            }
            info.inorder.push(i as u32);
            fr.state = 2;
            let k = nd.key as i64;
            let (hi, depth, blacks) = (fr.hi, fr.depth, fr.blacks);
            if nd.right != E {
                let c = nd.right;
                if c == 0 {
                    return Err(format!("sentinel slot 0 is linked as right child of slot {}", i));
                }
                if c as usize >= len {
                    return Err(format!("right link of slot {} points outside the arena ({})", i, c));
                }
                let ch = &s.slots[c as usize];
                if ch.parent != i as u32 {
                    return Err(format!("right child {} of slot {} has parent {}", c, i, ch.parent));
                }
                if nd.red && ch.red {
                    return Err(format!("red slot {} has red right child {}", i, c));
                }
                stack.push(Fr { node: c, lo: k, hi, depth: depth + 1, blacks, state: 0 });
            } else {
                check_leaf(blacks, i as u32, "right")?;
            }
        } else {
            stack.pop();
        }
    }
    info.n = info.inorder.len();
    info.black_height = leaf_black.unwrap_or(0);
    // (vi) height <= 2*log2(n+1) + 1  <=>  2^(height-1) <= (n+1)^2
    if info.height >= 1 {
        let h1 = (info.height - 1) as u32;
        let n1 = (info.n as u128) + 1;
        if h1 >= 120 || (1u128 << h1) > n1 * n1 {
            return Err(format!("height {} exceeds 2*log2(n+1)+1 for n = {}", info.height, info.n));
        }
    }
    Ok(info)
}

/// C11: {sentinel} + reachable + free list is a partition of the arena.
pub fn check_arena(s: &Snap, info: &StructInfo) -> Result<(), String> {
    let len = s.slots.len();
    if len == 0 {
        return Err("arena has no sentinel slot".into());
    }
    // 0 free, 1 = tree, 2 = free list, 3 = sentinel
    let mut state = vec![0u8; len];
    state[0] = 3;
    for &i in &info.inorder {
        state[i as usize] = 1;
    }
    for &f in &s.unused {
        if f as usize >= len {
            return Err(format!("free list holds index {} outside the arena (len {})", f, len));
        }
        match state[f as usize] {
            0 => state[f as usize] = 2,
            1 => return Err(format!("slot {} is on the free list and linked in the tree", f)),
            2 => return Err(format!("slot {} is on the free list twice", f)),
            _ => return Err("the sentinel slot 0 is on the free list".into()),
        }
    }
    if let Some(i) = state.iter().position(|x| *x == 0) {
        return Err(format!("slot {} is lost: neither in the tree nor on the free list", i));
    }
    Ok(())
}

/// Bounds-checked slot access for the reach classifiers: a corrupted snapshot
/// (seeded defects!) must never make the harness itself panic or loop.
fn slot(s: &Snap, i: u32) -> Option<&Slot> {
    if i == E {
        None
    } else {
        s.slots.get(i as usize)
    }
}

/// Which removal path a deletion of slot `idx` is about to take (reach measure).
pub fn classify_delete(s: &Snap, idx: u32) -> &'static str {
    let nd = match slot(s, idx) {
        Some(n) => n,
        None => return "other",
    };
    let mut d = idx;
    let mut two = "";
    if slot(s, nd.left).is_some() && slot(s, nd.right).is_some() {
        let mut c = nd.right;
        let mut deep = false;
        let mut guard = 0usize;
        while let Some(cn) = slot(s, c) {
            if slot(s, cn.left).is_none() || guard > s.slots.len() {
                break;
            }
            c = cn.left;
            deep = true;
            guard += 1;
        }
        d = c;
        two = if deep { "succ_deep" } else { "succ_child" };
    }
    let dn = match slot(s, d) {
        Some(n) => n,
        None => return "other",
    };
    let base: &'static str = if dn.left != E || dn.right != E {
        "one_child"
    } else if dn.parent == E {
        "last_entry"
    } else if dn.red {
        "red_leaf"
    } else {
        // black leaf: double-black repair; classify the first case met
        match slot(s, dn.parent) {
            None => "other",
            Some(p) => {
                let is_left = p.left == d;
                let sib = if is_left { p.right } else { p.left };
                match slot(s, sib) {
                    None => "black_leaf_no_sibling(!)",
                    Some(sn) => {
                        let red = |i: u32| slot(s, i).map(|x| x.red).unwrap_or(false);
                        if sn.red {
                            if is_left {
                                "case2_red_sibling_L"
                            } else {
                                "case2_red_sibling_R"
                            }
                        } else if !red(sn.left) && !red(sn.right) {
                            if p.red {
                                "case3_black_sib_red_parent"
                            } else {
                                "case4_black_sib_black_parent"
                            }
                        } else {
                            let far = if is_left { sn.right } else { sn.left };
                            if red(far) {
                                if is_left {
                                    "case6_far_red_L"
                                } else {
                                    "case6_far_red_R"
                                }
                            } else if is_left {
                                "case5_near_red_L"
                            } else {
                                "case5_near_red_R"
                            }
                        }
                    }
                }
            }
        }
    };
    match (two, base) {
        ("", b) => b,
        ("succ_child", "one_child") => "two_children/succ_child/one_child",
        ("succ_child", "red_leaf") => "two_children/succ_child/red_leaf",
        ("succ_child", _) => "two_children/succ_child/black_leaf",
        (_, "one_child") => "two_children/succ_deep/one_child",
        (_, "red_leaf") => "two_children/succ_deep/red_leaf",
        (_, _) => "two_children/succ_deep/black_leaf",
    }
}

/// Which insertion repair is about to run when `key` is inserted (reach measure).
pub fn classify_insert(s: &Snap, key: i32) -> &'static str {
    if s.root == E {
        return "root";
    }
    let mut i = s.root;
    let mut guard = 0usize;
    let (p, left) = loop {
        guard += 1;
        let nd = match slot(s, i) {
            Some(n) if guard <= s.slots.len() + 1 => n,
            _ => return "black_parent",
        };
        if key < nd.key {
            if nd.left == E {
                break (i, true);
            }
            i = nd.left;
        } else {
            if nd.right == E {
                break (i, false);
            }
            i = nd.right;
        }
    };
    let pn = match slot(s, p) {
        Some(n) => n,
        None => return "black_parent",
    };
    if !pn.red {
        return "black_parent";
    }
    let g = match slot(s, pn.parent) {
        Some(g) => g,
        None => return "case2_red_root_parent",
    };
    let p_is_left = g.left == p;
    let u = if p_is_left { g.right } else { g.left };
    if slot(s, u).map(|x| x.red).unwrap_or(false) {
        return "case3_red_uncle";
    }
    match (p_is_left, left) {
        (true, true) => "case5a_outer_LL",
        (true, false) => "case4a_inner_LR",
        (false, false) => "case5b_outer_RR",
        (false, true) => "case4b_inner_RL",
    }
}

pub fn find_key(s: &Snap, key: i32) -> u32 {
    let mut i = s.root;
    let mut guard = 0usize;
    while let Some(nd) = slot(s, i) {
        guard += 1;
        if guard > s.slots.len() + 1 {
            break;
        }
        if key == nd.key {
            return i;
        }
        i = if key < nd.key { nd.left } else { nd.right };
    }
    E
}
