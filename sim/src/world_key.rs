//! KEY world: KeyExpTree and KeyExpList (real code) under a simulated clock,
//! against a BTreeMap reference model.

use crate::core::*;
use crate::instr::{alloc_arm, alloc_disarm, closure_sees, FKey, NKey, SimKey};
use crate::op::{Flow, Op, Step};
use crate::rng::Rng;
use crate::snap::{self, Slot, Snap};
use i_tree::key::array::IntoArray;
use i_tree::key::exp::KeyExpCollection;
use i_tree::key::list::KeyExpList;
use i_tree::key::tree::KeyExpTree;
use std::cmp::Ordering;
use std::collections::{BTreeMap, BTreeSet, VecDeque};

pub const DEFAULT_VAL: i64 = -7_000_000_007;

type Tree = KeyExpTree<SimKey, i32, i64>;
type List = KeyExpList<SimKey, i32, i64>;

/// Object-safe adapter over the two real collections.
pub trait KColl {
    fn name(&self) -> &'static str;
    fn insert(&mut self, k: SimKey, v: i64, t: i32);
    fn get(&mut self, t: i32, k: SimKey) -> Option<i64>;
    fn less(&mut self, t: i32, d: i64, k: SimKey) -> i64;
    fn leq(&mut self, t: i32, d: i64, k: SimKey) -> i64;
    fn leq_by(&mut self, t: i32, d: i64, f: &dyn Fn(SimKey) -> Ordering) -> i64;
    fn is_empty(&self) -> bool;
    fn clear(&mut self);
    /// exported values, the capacity of the vector the library returned, size of one element
    fn export(self: Box<Self>, t: i32) -> (Vec<i64>, usize, usize);
    fn snapshot(&self) -> Option<Snap>;
    /// keys physically stored, in storage order (list) or key order (tree)
    fn stored(&self) -> Vec<SimKey>;
    fn min_exp(&self) -> Option<i32>;
    fn fresh(&self, cap: usize) -> Box<dyn KColl>;
}

impl KColl for Tree {
    fn name(&self) -> &'static str {
        "KeyExpTree"
    }
    fn insert(&mut self, k: SimKey, v: i64, t: i32) {
        KeyExpCollection::insert(self, k, v, t)
    }
    fn get(&mut self, t: i32, k: SimKey) -> Option<i64> {
        self.get_value(t, k)
    }
    fn less(&mut self, t: i32, d: i64, k: SimKey) -> i64 {
        self.first_less(t, d, k)
    }
    fn leq(&mut self, t: i32, d: i64, k: SimKey) -> i64 {
        self.first_less_or_equal(t, d, k)
    }
    fn leq_by(&mut self, t: i32, d: i64, f: &dyn Fn(SimKey) -> Ordering) -> i64 {
        self.first_less_or_equal_by(t, d, |k| f(k))
    }
    fn is_empty(&self) -> bool {
        KeyExpCollection::is_empty(self)
    }
    fn clear(&mut self) {
        KeyExpCollection::clear(self)
    }
    fn export(self: Box<Self>, t: i32) -> (Vec<i64>, usize, usize) {
        let v = (*self).into_ordered_vec(t);
        let c = v.capacity();
        (v, c, std::mem::size_of::<i64>())
    }
    fn snapshot(&self) -> Option<Snap> {
        let v = self.verif_snapshot();
        Some(Snap {
            root: v.root,
            slots: v.slots.iter().map(|s| Slot { parent: s.parent, left: s.left, right: s.right, red: s.red, key: s.item.key, aux: s.item.exp }).collect(),
            unused: v.unused,
            unused_cap: v.unused_capacity,
        })
    }
    fn stored(&self) -> Vec<SimKey> {
        let v = self.verif_snapshot();
        let mut out = Vec::new();
        // in-order walk, tolerant of broken structure (bounded)
        let mut stack: Vec<(u32, bool)> = Vec::new();
        if v.root != snap::E {
            stack.push((v.root, false));
        }
        let mut guard = 0usize;
        while let Some((i, done)) = stack.pop() {
            guard += 1;
            if guard > 4 * v.slots.len() + 8 || i as usize >= v.slots.len() {
                break;
            }
            let s = &v.slots[i as usize];
            if done {
                out.push(s.item);
            } else {
                if s.right != snap::E {
                    stack.push((s.right, false));
                }
                stack.push((i, true));
                if s.left != snap::E {
                    stack.push((s.left, false));
                }
            }
        }
        out
    }
    fn min_exp(&self) -> Option<i32> {
        None
    }
    fn fresh(&self, cap: usize) -> Box<dyn KColl> {
        Box::new(Tree::new(cap))
    }
}

impl KColl for List {
    fn name(&self) -> &'static str {
        "KeyExpList"
    }
    fn insert(&mut self, k: SimKey, v: i64, t: i32) {
        KeyExpCollection::insert(self, k, v, t)
    }
    fn get(&mut self, t: i32, k: SimKey) -> Option<i64> {
        self.get_value(t, k)
    }
    fn less(&mut self, t: i32, d: i64, k: SimKey) -> i64 {
        self.first_less(t, d, k)
    }
    fn leq(&mut self, t: i32, d: i64, k: SimKey) -> i64 {
        self.first_less_or_equal(t, d, k)
    }
    fn leq_by(&mut self, t: i32, d: i64, f: &dyn Fn(SimKey) -> Ordering) -> i64 {
        self.first_less_or_equal_by(t, d, |k| f(k))
    }
    fn is_empty(&self) -> bool {
        KeyExpCollection::is_empty(self)
    }
    fn clear(&mut self) {
        KeyExpCollection::clear(self)
    }
    fn export(self: Box<Self>, t: i32) -> (Vec<i64>, usize, usize) {
        let v = (*self).into_ordered_vec(t);
        let c = v.capacity();
        (v, c, std::mem::size_of::<i64>())
    }
    fn snapshot(&self) -> Option<Snap> {
        None
    }
    fn stored(&self) -> Vec<SimKey> {
        self.verif_keys()
    }
    fn min_exp(&self) -> Option<i32> {
        Some(self.verif_min_exp())
    }
    fn fresh(&self, cap: usize) -> Box<dyn KColl> {
        Box::new(List::new(cap))
    }
}

// ---- narrow instantiation: KeyExpTree<NKey, u8, u32> / KeyExpList<NKey, u8, u32> -------------
// The world keeps thinking in SimKey / i32 time / i64 values; the adapters convert. Times and
// expirations of a narrow run never exceed 255 (the world's `tmax`), values are insertion ids.

type TreeN = KeyExpTree<NKey, u8, u32>;
type ListN = KeyExpList<NKey, u8, u32>;

const N_DEFAULT: u32 = u32::MAX - 7;

#[inline]
fn nk(k: SimKey) -> NKey {
    NKey { key: k.key as i64, exp: k.exp.clamp(0, 255) as u8, id: k.id }
}
#[inline]
fn sk(k: NKey) -> SimKey {
    SimKey { key: k.key as i32, exp: k.exp as i32, id: k.id }
}
#[inline]
fn nt(t: i32) -> u8 {
    t.clamp(0, 255) as u8
}
#[inline]
fn nv(v: i64) -> u32 {
    if v == DEFAULT_VAL {
        N_DEFAULT
    } else {
        v as u32
    }
}
#[inline]
fn wv(v: u32) -> i64 {
    if v == N_DEFAULT {
        DEFAULT_VAL
    } else {
        v as i64
    }
}

macro_rules! narrow_common {
    () => {
        fn insert(&mut self, k: SimKey, v: i64, t: i32) {
            KeyExpCollection::insert(self, nk(k), nv(v), nt(t))
        }
        fn get(&mut self, t: i32, k: SimKey) -> Option<i64> {
            self.get_value(nt(t), nk(k)).map(wv)
        }
        fn less(&mut self, t: i32, d: i64, k: SimKey) -> i64 {
            wv(self.first_less(nt(t), nv(d), nk(k)))
        }
        fn leq(&mut self, t: i32, d: i64, k: SimKey) -> i64 {
            wv(self.first_less_or_equal(nt(t), nv(d), nk(k)))
        }
        fn leq_by(&mut self, t: i32, d: i64, f: &dyn Fn(SimKey) -> Ordering) -> i64 {
            wv(self.first_less_or_equal_by(nt(t), nv(d), |k| f(sk(k))))
        }
        fn is_empty(&self) -> bool {
            KeyExpCollection::is_empty(self)
        }
        fn clear(&mut self) {
            KeyExpCollection::clear(self)
        }
        fn export(self: Box<Self>, t: i32) -> (Vec<i64>, usize, usize) {
            let v = (*self).into_ordered_vec(nt(t));
            let c = v.capacity();
            (v.into_iter().map(wv).collect(), c, std::mem::size_of::<u32>())
        }
    };
}

impl KColl for TreeN {
    fn name(&self) -> &'static str {
        "KeyExpTree"
    }
    narrow_common!();
    fn snapshot(&self) -> Option<Snap> {
        let v = self.verif_snapshot();
        Some(Snap {
            root: v.root,
            slots: v.slots.iter().map(|s| Slot { parent: s.parent, left: s.left, right: s.right, red: s.red, key: s.item.key as i32, aux: s.item.exp as i32 }).collect(),
            unused: v.unused,
            unused_cap: v.unused_capacity,
        })
    }
    fn stored(&self) -> Vec<SimKey> {
        let v = self.verif_snapshot();
        let mut out = Vec::new();
        let mut stack: Vec<(u32, bool)> = Vec::new();
        if v.root != snap::E {
            stack.push((v.root, false));
        }
        let mut guard = 0usize;
        while let Some((i, done)) = stack.pop() {
            guard += 1;
            if guard > 4 * v.slots.len() + 8 || i as usize >= v.slots.len() {
                break;
            }
            let s = &v.slots[i as usize];
            if done {
                out.push(sk(s.item));
            } else {
                if s.right != snap::E {
                    stack.push((s.right, false));
                }
                stack.push((i, true));
                if s.left != snap::E {
                    stack.push((s.left, false));
                }
            }
        }
        out
    }
    fn min_exp(&self) -> Option<i32> {
        None
    }
    fn fresh(&self, cap: usize) -> Box<dyn KColl> {
        Box::new(TreeN::new(cap))
    }
}

impl KColl for ListN {
    fn name(&self) -> &'static str {
        "KeyExpList"
    }
    narrow_common!();
    fn snapshot(&self) -> Option<Snap> {
        None
    }
    fn stored(&self) -> Vec<SimKey> {
        self.verif_keys().into_iter().map(sk).collect()
    }
    fn min_exp(&self) -> Option<i32> {
        Some(self.verif_min_exp() as i32)
    }
    fn fresh(&self, cap: usize) -> Box<dyn KColl> {
        Box::new(ListN::new(cap))
    }
}

// ---- zero-sized values: KeyExpTree<NKey, u8, ()> / KeyExpList<NKey, u8, ()> (an expiring *set*) ----
// Every answer of such a collection is `()`: only the process outcome, `Some`/`None` of the exact
// lookup and the length of the export are observable. Drawn only by the checks that look at
// nothing else (C07: length of the export; C10; C19).

type TreeZ = KeyExpTree<NKey, u8, ()>;
type ListZ = KeyExpList<NKey, u8, ()>;

/// what a query of a zero-sized-value collection "returns"
pub const ZST_VAL: i64 = -7_000_000_099;

macro_rules! zst_common {
    () => {
        fn insert(&mut self, k: SimKey, _v: i64, t: i32) {
            KeyExpCollection::insert(self, nk(k), (), nt(t))
        }
        fn get(&mut self, t: i32, k: SimKey) -> Option<i64> {
            self.get_value(nt(t), nk(k)).map(|_| ZST_VAL)
        }
        fn less(&mut self, t: i32, _d: i64, k: SimKey) -> i64 {
            self.first_less(nt(t), (), nk(k));
            ZST_VAL
        }
        fn leq(&mut self, t: i32, _d: i64, k: SimKey) -> i64 {
            self.first_less_or_equal(nt(t), (), nk(k));
            ZST_VAL
        }
        fn leq_by(&mut self, t: i32, _d: i64, f: &dyn Fn(SimKey) -> Ordering) -> i64 {
            self.first_less_or_equal_by(nt(t), (), |k| f(sk(k)));
            ZST_VAL
        }
        fn is_empty(&self) -> bool {
            KeyExpCollection::is_empty(self)
        }
        fn clear(&mut self) {
            KeyExpCollection::clear(self)
        }
        fn export(self: Box<Self>, t: i32) -> (Vec<i64>, usize, usize) {
            let v = (*self).into_ordered_vec(nt(t));
            let n = v.len();
            (vec![ZST_VAL; n], n, 0)
        }
    };
}

impl KColl for TreeZ {
    fn name(&self) -> &'static str {
        "KeyExpTree"
    }
    zst_common!();
    fn snapshot(&self) -> Option<Snap> {
        let v = self.verif_snapshot();
        Some(Snap {
            root: v.root,
            slots: v.slots.iter().map(|s| Slot { parent: s.parent, left: s.left, right: s.right, red: s.red, key: s.item.key as i32, aux: s.item.exp as i32 }).collect(),
            unused: v.unused,
            unused_cap: v.unused_capacity,
        })
    }
    fn stored(&self) -> Vec<SimKey> {
        let v = self.verif_snapshot();
        let mut out = Vec::new();
        let mut stack: Vec<(u32, bool)> = Vec::new();
        if v.root != snap::E {
            stack.push((v.root, false));
        }
        let mut guard = 0usize;
        while let Some((i, done)) = stack.pop() {
            guard += 1;
            if guard > 4 * v.slots.len() + 8 || i as usize >= v.slots.len() {
                break;
            }
            let s = &v.slots[i as usize];
            if done {
                out.push(sk(s.item));
            } else {
                if s.right != snap::E {
                    stack.push((s.right, false));
                }
                stack.push((i, true));
                if s.left != snap::E {
                    stack.push((s.left, false));
                }
            }
        }
        out
    }
    fn min_exp(&self) -> Option<i32> {
        None
    }
    fn fresh(&self, cap: usize) -> Box<dyn KColl> {
        Box::new(TreeZ::new(cap))
    }
}

impl KColl for ListZ {
    fn name(&self) -> &'static str {
        "KeyExpList"
    }
    zst_common!();
    fn snapshot(&self) -> Option<Snap> {
        None
    }
    fn stored(&self) -> Vec<SimKey> {
        self.verif_keys().into_iter().map(sk).collect()
    }
    fn min_exp(&self) -> Option<i32> {
        Some(self.verif_min_exp() as i32)
    }
    fn fresh(&self, cap: usize) -> Box<dyn KColl> {
        Box::new(ListZ::new(cap))
    }
}

// ---- fat instantiation: KeyExpTree<FKey, i32, i64> / KeyExpList<FKey, i32, i64> (280-byte keys) ----

type TreeF = KeyExpTree<FKey, i32, i64>;
type ListF = KeyExpList<FKey, i32, i64>;

macro_rules! fat_common {
    () => {
        fn insert(&mut self, k: SimKey, v: i64, t: i32) {
            KeyExpCollection::insert(self, FKey::from_sim(k), v, t)
        }
        fn get(&mut self, t: i32, k: SimKey) -> Option<i64> {
            self.get_value(t, FKey::from_sim(k))
        }
        fn less(&mut self, t: i32, d: i64, k: SimKey) -> i64 {
            self.first_less(t, d, FKey::from_sim(k))
        }
        fn leq(&mut self, t: i32, d: i64, k: SimKey) -> i64 {
            self.first_less_or_equal(t, d, FKey::from_sim(k))
        }
        fn leq_by(&mut self, t: i32, d: i64, f: &dyn Fn(SimKey) -> Ordering) -> i64 {
            self.first_less_or_equal_by(t, d, |k| f(k.to_sim()))
        }
        fn is_empty(&self) -> bool {
            KeyExpCollection::is_empty(self)
        }
        fn clear(&mut self) {
            KeyExpCollection::clear(self)
        }
        fn export(self: Box<Self>, t: i32) -> (Vec<i64>, usize, usize) {
            let v = (*self).into_ordered_vec(t);
            let c = v.capacity();
            (v, c, std::mem::size_of::<i64>())
        }
    };
}

impl KColl for TreeF {
    fn name(&self) -> &'static str {
        "KeyExpTree"
    }
    fat_common!();
    fn snapshot(&self) -> Option<Snap> {
        let v = self.verif_snapshot();
        Some(Snap {
            root: v.root,
            slots: v.slots.iter().map(|s| Slot { parent: s.parent, left: s.left, right: s.right, red: s.red, key: s.item.key, aux: s.item.exp }).collect(),
            unused: v.unused,
            unused_cap: v.unused_capacity,
        })
    }
    fn stored(&self) -> Vec<SimKey> {
        let v = self.verif_snapshot();
        let mut out = Vec::new();
        let mut stack: Vec<(u32, bool)> = Vec::new();
        if v.root != snap::E {
            stack.push((v.root, false));
        }
        let mut guard = 0usize;
        while let Some((i, done)) = stack.pop() {
            guard += 1;
            if guard > 4 * v.slots.len() + 8 || i as usize >= v.slots.len() {
                break;
            }
            let s = &v.slots[i as usize];
            if done {
                out.push(s.item.to_sim());
            } else {
                if s.right != snap::E {
                    stack.push((s.right, false));
                }
                stack.push((i, true));
                if s.left != snap::E {
                    stack.push((s.left, false));
                }
            }
        }
        out
    }
    fn min_exp(&self) -> Option<i32> {
        None
    }
    fn fresh(&self, cap: usize) -> Box<dyn KColl> {
        Box::new(TreeF::new(cap))
    }
}

impl KColl for ListF {
    fn name(&self) -> &'static str {
        "KeyExpList"
    }
    fat_common!();
    fn snapshot(&self) -> Option<Snap> {
        None
    }
    fn stored(&self) -> Vec<SimKey> {
        self.verif_keys().iter().map(|k| k.to_sim()).collect()
    }
    fn min_exp(&self) -> Option<i32> {
        Some(self.verif_min_exp())
    }
    fn fresh(&self, cap: usize) -> Box<dyn KColl> {
        Box::new(ListF::new(cap))
    }
}

#[derive(Clone, Copy, Debug, PartialEq)]
pub struct MEnt {
    pub exp: i32,
    pub val: i64,
    pub id: u32,
}

/// Generation parameters (swarm configuration of this run; not needed for replay).
#[derive(Clone, Debug)]
pub struct KeyGen {
    pub w: [u32; 12],
    pub horizon_w: [u32; 6],
    pub key_pattern: u8,
    pub probe_w: [u32; 6],
    pub export_at_end: bool,
    pub last_key: i32,
    pub zig: bool,
    pub events: BTreeSet<(i32, u32, u8, i32)>,
    pub ev_seq: u32,
    pub pending: VecDeque<Op>,
    pub horizon_short: i32,
    pub horizon_long: i32,
    pub sweep_after_mut: u8,
    /// "fill" phase of the scheduler: keep inserting (no clock advance, no query) until
    /// this many entries are physically stored - aimed at the arena being exactly full,
    /// one short of full, or just grown (right after start or after a clear)
    pub fill_target: Option<usize>,
    pub fill_pct: u64,
    pub clear_after_fill: bool,
    /// "forest" plan: a large tree (20-200 entries) whose expirations fall on a handful of
    /// instants, built without any query; then the clock lands on one of those instants and a
    /// burst of queries meets many expired nodes at once, deep inside the tree
    pub forest: u8, // 0 = off, 1 = building, 2 = burst
    pub forest_burst: u32,
    /// every entry of the forest expires at one of the three instants (mass expiry: the whole
    /// tree is gone after the landing, the arena keeps its high-water mark)
    pub forest_short_only: bool,
    /// "pulse" plan: short-lived entries only - one to three inserts that expire at the next
    /// tick or the one after, the tick, one operation that meets them expired - so that the
    /// tree runs empty through lazy expiry (never through clear) over and over again
    pub pulse: bool,
    pub pulse_phase: u8,
    /// percent of the jumps that go (nearly) to the end of the time line
    pub far_jump_pct: u64,
    /// C12: make sure the run contains a clear (at this generated step)
    pub forced_clear_at: Option<usize>,
    pub generated: usize,
}

const W_INS: usize = 0;
const W_GET: usize = 1;
const W_LESS: usize = 2;
const W_LEQ: usize = 3;
const W_LEQBY: usize = 4;
const W_EMPTY: usize = 5;
const W_SWEEP: usize = 6;
const W_TICK: usize = 7;
const W_JUMP: usize = 8;
const W_EVENT: usize = 9;
const W_CLEAR: usize = 10;
const W_LAND: usize = 11;

pub struct KeyWorld {
    pub cfg: Cfg,
    colls: Vec<Option<Box<dyn KColl>>>,
    twins: Vec<Option<Box<dyn KColl>>>,
    names: Vec<&'static str>,
    pub model: BTreeMap<i32, MEnt>,
    pub now: i32,
    next_id: u32,
    peak: Vec<usize>,
    cleared_once: bool,
    /// entries physically stored in the first collection at the last structural check (reach only)
    last_n: usize,
    /// end of the time line = "never" (i32::MAX, or 255 in the narrow instantiation)
    tmax: i32,
    /// keys an interrupted operation was about to change: always part of the observation window
    touched: Vec<i32>,
    pub gen: KeyGen,
}

fn twin_name(n: &'static str) -> &'static str {
    match n {
        "KeyExpTree" => "KeyExpTree(twin)",
        _ => "KeyExpList(twin)",
    }
}

fn tag_of(msg: &str) -> String {
    strip_numbers(msg).replace("left", "side").replace("right", "side")
}

impl KeyWorld {
    pub fn new(cfg: Cfg, rng: Option<&mut Rng>) -> KeyWorld {
        let mut colls: Vec<Option<Box<dyn KColl>>> = Vec::new();
        let mut names = Vec::new();
        let zst = cfg.key_ty == 3;
        let narrow = cfg.key_ty == 1 || zst;
        let fat = cfg.key_ty == 2;
        if cfg.colls & C_TREE != 0 {
            colls.push(Some(if zst {
                Box::new(TreeZ::new(cfg.cap)) as Box<dyn KColl>
            } else if narrow {
                Box::new(TreeN::new(cfg.cap))
            } else if fat {
                Box::new(TreeF::new(cfg.cap))
            } else {
                Box::new(Tree::new(cfg.cap))
            }));
            names.push("KeyExpTree");
        }
        if cfg.colls & C_LIST != 0 {
            colls.push(Some(if zst {
                Box::new(ListZ::new(cfg.cap)) as Box<dyn KColl>
            } else if narrow {
                Box::new(ListN::new(cfg.cap))
            } else if fat {
                Box::new(ListF::new(cfg.cap))
            } else {
                Box::new(List::new(cfg.cap))
            }));
            names.push("KeyExpList");
        }
        let tmax = if narrow { 255 } else { i32::MAX };
        let n = colls.len();
        let gen = match rng {
            Some(r) => Self::draw_gen(&cfg, r),
            None => Self::default_gen(),
        };
        KeyWorld { now: if narrow { cfg.t0.clamp(0, tmax) } else { cfg.t0 }, cfg, colls, twins: (0..n).map(|_| None).collect(), names, model: BTreeMap::new(), next_id: 1, peak: vec![0; n], cleared_once: false, last_n: 0, tmax, touched: Vec::new(), gen }
    }

    fn default_gen() -> KeyGen {
        KeyGen {
            w: [10, 5, 5, 5, 5, 1, 1, 5, 2, 5, 1, 2],
            horizon_w: [1, 1, 4, 2, 1, 1],
            key_pattern: 0,
            probe_w: [3, 3, 1, 1, 2, 1],
            export_at_end: false,
            last_key: 0,
            zig: false,
            events: BTreeSet::new(),
            ev_seq: 0,
            pending: VecDeque::new(),
            horizon_short: 8,
            horizon_long: 200,
            sweep_after_mut: 0,
            fill_target: None,
            fill_pct: 0,
            clear_after_fill: false,
            forest: 0,
            forest_burst: 0,
            forest_short_only: false,
            pulse: false,
            pulse_phase: 0,
            far_jump_pct: 3,
            forced_clear_at: None,
            generated: 0,
        }
    }

    fn draw_gen(cfg: &Cfg, r: &mut Rng) -> KeyGen {
        let mut g = Self::default_gen();
        // operation mix: each weight drawn from a small set so that some runs
        // are insert-heavy, some query-heavy, some nearly clock-only
        let pal: [u32; 6] = [0, 1, 2, 5, 10, 20];
        for i in 0..12 {
            g.w[i] = *r.pick(&pal);
        }
        g.w[W_INS] = *r.pick(&[5, 10, 20, 30]);
        g.w[W_CLEAR] = *r.pick(&[0, 0, 0, 1, 1, 3]);
        g.w[W_EMPTY] = *r.pick(&[0, 1, 2]);
        g.w[W_SWEEP] = *r.pick(&[0, 0, 1, 2, 5]);
        if !cfg.has(O_KPRED) && !cfg.has(O_MON) && !cfg.has(O_CRASH) && !cfg.has(O_TWIN) && !cfg.has(O_TORN) && !cfg.has(O_STRUCT | O_ARENA) {
            // predecessor queries are not observed: keep a few as background work only
            g.w[W_LESS] = g.w[W_LESS].min(2);
            g.w[W_LEQ] = g.w[W_LEQ].min(2);
            g.w[W_LEQBY] = g.w[W_LEQBY].min(2);
        }
        if !cfg.has(O_KGET) && !cfg.has(O_MON) && !cfg.has(O_CRASH) && !cfg.has(O_TWIN) && !cfg.has(O_TORN) && !cfg.has(O_STRUCT | O_ARENA) {
            g.w[W_GET] = 0;
        }
        if cfg.has(O_KGET) {
            g.w[W_GET] = g.w[W_GET].max(5);
        }
        if cfg.has(O_TWIN) {
            g.w[W_CLEAR] = *r.pick(&[1, 2, 3, 5]);
        }
        for i in 0..6 {
            g.horizon_w[i] = *r.pick(&[0, 1, 1, 2, 5]);
        }
        if g.horizon_w.iter().all(|x| *x == 0) {
            g.horizon_w[2] = 1;
        }
        g.key_pattern = r.below(6) as u8;
        for i in 0..6 {
            g.probe_w[i] = *r.pick(&[0, 1, 2, 4]);
        }
        if g.probe_w.iter().all(|x| *x == 0) {
            g.probe_w[0] = 1;
        }
        g.horizon_short = *r.pick(&[2, 4, 8, 16]);
        g.horizon_long = *r.pick(&[50, 200, 1000, 100000]);
        g.sweep_after_mut = *r.pick(&[0, 0, 0, 1, 2]);
        g.last_key = cfg.key_lo + (r.below(cfg.universe.max(1) as u64) as i32);
        g.fill_pct = *r.pick(&[0, 0, 25, 50, 100]);
        if r.below(100) < g.fill_pct / 2 {
            g.fill_target = Some(Self::draw_fill_target(cfg, r));
            g.clear_after_fill = r.chance(1, 3);
        }
        if (r.chance(1, 6) || (cfg.has(O_CAP) && r.chance(1, 2))) && cfg.universe >= 64 {
            g.forest = 1;
            g.fill_target = Some(*r.pick(&[20usize, 30, 40, 60, 100, 150, 200, 300]));
            g.forest_short_only = r.chance(1, 3);
            g.clear_after_fill = false;
        }
        // a run in which nothing ever expires (expiration = "never" = i32::MAX), with the clock
        // allowed to reach the very end of the time line
        if r.chance(1, 16) {
            g.horizon_w = [0, 0, 0, 0, 1, 0];
            g.far_jump_pct = 20;
        }
        // drained again and again by lazy expiry (every tenth run; every fourth of the runs that
        // look at the arena or at the export's allocation)
        if g.forest == 0 && (r.chance(1, 10) || (cfg.has(O_CAP | O_ARENA) && r.chance(1, 4))) {
            g.pulse = true;
            g.fill_target = None;
        }
        if cfg.has(O_TWIN) {
            g.forced_clear_at = Some(r.below(12) as usize);
        }
        if cfg.cap > 1_000_000 {
            // a huge arena: a few insertions, a clear, then the rest of the short history
            g.forced_clear_at = Some(2 + r.below(4) as usize);
            g.w[W_CLEAR] = g.w[W_CLEAR].min(1);
            g.fill_target = None;
            g.forest = 0;
            g.pulse = false;
            g.fill_pct = 0;
            g.w[W_INS] = 20;
        }
        g.export_at_end = cfg.has(O_KEXPORT) || cfg.has(O_CAP) || ((cfg.has(O_CRASH) || cfg.has(O_TWIN) || cfg.has(O_TORN)) && r.chance(1, 2));
        g
    }

    /// An unresolved fill target: 1_000_000 + variant. It is turned into an absolute number
    /// of stored entries when the fill phase starts, relative to the arena size AT THAT TIME
    /// (after earlier growth, after a clear): two short of full, one short, exactly full,
    /// just grown, grown twice.
    fn draw_fill_target(_cfg: &Cfg, r: &mut Rng) -> usize {
        1_000_000 + r.below(7) as usize
    }

    fn resolve_fill_target(&self, unresolved: usize) -> usize {
        let slots = self.arena_slots_now();
        let t = match unresolved - 1_000_000 {
            0 => slots.saturating_sub(3),
            1 | 2 => slots.saturating_sub(2),
            3 => slots.saturating_sub(1),
            4 => slots,
            5 => 2 * slots,
            _ => 4 * slots + 1,
        };
        t.clamp(2, 300)
    }

    /// current arena size of the first collection (slots, sentinel included)
    fn arena_slots_now(&self) -> usize {
        match self.colls.first().and_then(|c| c.as_ref()).and_then(|c| c.snapshot()) {
            Some(s) => s.slots.len().max(2),
            None => self.cfg.cap.max(8),
        }
    }

    /// entries physically stored in the first collection (expired-but-unremoved ones count)
    fn stored_count(&self) -> usize {
        match self.colls.first().and_then(|c| c.as_ref()) {
            Some(c) => match c.snapshot() {
                Some(s) => s.slots.len().saturating_sub(s.unused.len() + 1),
                None => c.stored().len(),
            },
            None => 0,
        }
    }

    fn exp_pred(&self, model: &BTreeMap<i32, MEnt>, t: i32, bound: i32, inclusive: bool) -> i64 {
        let it: Box<dyn Iterator<Item = (&i32, &MEnt)>> = if inclusive { Box::new(model.range(..=bound).rev()) } else { Box::new(model.range(..bound).rev()) };
        for (_, e) in it {
            if e.exp > t {
                return e.val;
            }
        }
        DEFAULT_VAL
    }

    fn exp_get(&self, model: &BTreeMap<i32, MEnt>, t: i32, k: i32) -> Option<i64> {
        match model.get(&k) {
            Some(e) if e.exp > t => Some(e.val),
            _ => None,
        }
    }

    fn fresh_id(&mut self) -> u32 {
        let id = self.next_id;
        self.next_id += 1;
        id
    }

    /// Probe keys of a sweep: the whole window for small universes, otherwise
    /// every stored key and its neighbours (bounded).
    fn sweep_keys(&self) -> Vec<i32> {
        let mut v: Vec<i32> = Vec::new();
        if self.cfg.universe <= 24 {
            for k in (self.cfg.key_lo - 1)..=(self.cfg.key_lo + self.cfg.universe) {
                v.push(k);
            }
        } else {
            let mut set = BTreeSet::new();
            for (k, _) in self.model.iter().take(24) {
                set.insert(k.saturating_sub(1));
                set.insert(*k);
                set.insert(k.saturating_add(1));
            }
            for (k, _) in self.model.iter().rev().take(8) {
                set.insert(k.saturating_sub(1));
                set.insert(*k);
                set.insert(k.saturating_add(1));
            }
            set.insert(self.cfg.key_lo - 1);
            set.insert(self.cfg.key_lo.saturating_add(self.cfg.universe));
            for k in &self.touched {
                set.insert(k.saturating_sub(1));
                set.insert(*k);
                set.insert(k.saturating_add(1));
            }
            v.extend(set);
        }
        v
    }

    /// One observation of collection `ci` (all enabled query kinds for every sweep key).
    /// Returns the flat answer vector.
    fn observe(&mut self, ci: usize, ctx: &mut RunCtx, opkind: &'static str, kinds: u32, twin: bool) -> Result<Vec<i64>, Stop> {
        let keys = self.sweep_keys();
        let mut out = Vec::with_capacity(keys.len() * 5);
        let t = self.now;
        let name = if twin { twin_name(self.names[ci]) } else { self.names[ci] };
        // a crash inside a sweep is this property's business only if it observes the answers
        let owned = !twin && self.cfg.has(O_KPRED | O_KGET | O_TORN | O_TWIN);
        let cfg = self.cfg.clone();
        for q in keys {
            let pid = self.fresh_id();
            let probe = SimKey { key: q, exp: t, id: pid };
            let c = if twin { self.twins[ci].as_mut().unwrap() } else { self.colls[ci].as_mut().unwrap() };
            if kinds & O_KPRED != 0 {
                let (r, _) = call(ctx, &cfg, name, "first_less", opkind, owned, None, Some((t, pid)), || c.less(t, DEFAULT_VAL, probe))?;
                if let Called::Ok(v) = r {
                    out.push(v)
                }
                let (r, _) = call(ctx, &cfg, name, "first_less_or_equal", opkind, owned, None, Some((t, pid)), || c.leq(t, DEFAULT_VAL, probe))?;
                if let Called::Ok(v) = r {
                    out.push(v)
                }
                let f = move |x: SimKey| {
                    closure_sees(&x);
                    x.cmp(&probe)
                };
                let (r, _) = call(ctx, &cfg, name, "first_less_or_equal_by", opkind, owned, None, Some((t, pid)), || c.leq_by(t, DEFAULT_VAL, &f))?;
                if let Called::Ok(v) = r {
                    out.push(v)
                }
            }
            if kinds & O_KGET != 0 {
                let (r, _) = call(ctx, &cfg, name, "get_value", opkind, owned, None, Some((t, pid)), || c.get(t, probe))?;
                if let Called::Ok(v) = r {
                    out.push(v.unwrap_or(DEFAULT_VAL + 1))
                }
            }
        }
        Ok(out)
    }

    fn expected_observation(&self, model: &BTreeMap<i32, MEnt>, kinds: u32) -> Vec<i64> {
        let keys = self.sweep_keys();
        let t = self.now;
        let mut out = Vec::with_capacity(keys.len() * 5);
        for q in keys {
            if kinds & O_KPRED != 0 {
                out.push(self.exp_pred(model, t, q, false));
                out.push(self.exp_pred(model, t, q, true));
                out.push(self.exp_pred(model, t, q, true));
            }
            if kinds & O_KGET != 0 {
                out.push(self.exp_get(model, t, q).unwrap_or(DEFAULT_VAL + 1));
            }
        }
        out
    }

    fn sweep_kinds(&self) -> u32 {
        let mut k = self.cfg.oracles & (O_KPRED | O_KGET);
        if self.cfg.has(O_TORN) || self.cfg.has(O_TWIN) {
            k |= O_KPRED | O_KGET;
        }
        if k == 0 && (self.cfg.has(O_MON) || self.cfg.has(O_CRASH)) {
            k = O_KPRED | O_KGET;
        }
        k
    }

    /// Compare a full observation of every collection with the model (functional
    /// oracles) and / or with the fresh twin (C12).
    fn sweep_check(&mut self, ctx: &mut RunCtx, opkind: &'static str, expect_empty: bool) -> Result<(), Stop> {
        let kinds = self.sweep_kinds();
        if kinds == 0 {
            return Ok(());
        }
        let expect = self.expected_observation(&self.model, kinds);
        let checked = self.cfg.has(O_KPRED | O_KGET | O_TORN) || expect_empty;
        for ci in 0..self.colls.len() {
            if self.colls[ci].is_none() {
                continue;
            }
            let twin_obs = if self.twins[ci].is_some() { Some(self.observe(ci, ctx, opkind, kinds, true)?) } else { None };
            let got = self.observe(ci, ctx, opkind, kinds, false)?;
            ctx.stats.oracle_evals += got.len() as u64;
            if let Some(tw) = twin_obs {
                if tw != got {
                    let keys = self.sweep_keys();
                    let per = (got.len() / keys.len().max(1)).max(1);
                    let pos = got.iter().zip(tw.iter()).position(|(a, b)| a != b).unwrap_or(0);
                    return Err(mismatch(
                        "twin",
                        self.names[ci],
                        opkind,
                        "sweep differs from twin",
                        format!("sweep at time {}: {}({}) returned {} on the cleared instance and {} on the fresh twin", self.now, self.query_name(kinds, pos % per), keys[(pos / per).min(keys.len() - 1)], got[pos], tw[pos]),
                    ));
                }
            }
            if checked && got != expect {
                let keys = self.sweep_keys();
                let per = expect.len() / keys.len().max(1);
                let pos = got.iter().zip(expect.iter()).position(|(a, b)| a != b).unwrap_or(0);
                let q = keys[pos / per.max(1)];
                let which = pos % per.max(1);
                let qn = self.query_name(kinds, which);
                let oracle = if expect_empty && !self.cfg.has(O_KPRED | O_KGET | O_TORN) {
                    "twin"
                } else if qn == "get_value" {
                    "key.get"
                } else {
                    "key.pred"
                };
                return Err(mismatch(
                    oracle,
                    self.names[ci],
                    opkind,
                    &format!("sweep {}", qn),
                    format!("sweep at time {}: {}({}) returned {} but the reference gives {} (model {:?})", self.now, qn, q, got[pos], expect[pos], self.model_brief()),
                ));
            }
        }
        Ok(())
    }

    fn query_name(&self, kinds: u32, which: usize) -> &'static str {
        let mut names: Vec<&'static str> = Vec::new();
        if kinds & O_KPRED != 0 {
            names.extend(["first_less", "first_less_or_equal", "first_less_or_equal_by"]);
        }
        if kinds & O_KGET != 0 {
            names.push("get_value");
        }
        names.get(which).copied().unwrap_or("?")
    }

    fn model_brief(&self) -> Vec<(i32, i32)> {
        self.model.iter().take(12).map(|(k, e)| (*k, e.exp)).collect()
    }

    /// Structural + arena oracles after a completed operation.
    fn post_structure(&mut self, ctx: &mut RunCtx, opkind: &'static str) -> Result<(), Stop> {
        let want_struct = self.cfg.has(O_STRUCT) || self.cfg.has(O_TORN);
        let want_arena = self.cfg.has(O_ARENA) || self.cfg.has(O_TORN);
        if !want_struct && !want_arena {
            return Ok(());
        }
        for ci in 0..self.colls.len() {
            let name = self.names[ci];
            let c = match self.colls[ci].as_ref() {
                Some(c) => c,
                None => continue,
            };
            if let Some(s) = c.snapshot() {
                let info = match snap::check_structure_at(&s, Some(self.now)) {
                    Ok(i) => i,
                    Err(m) => {
                        if want_struct {
                            return Err(invariant("struct", name, opkind, &tag_of(&m), m));
                        } else {
                            return Err(Stop::Inconclusive(format!("structure broken (not observed by this property): {}", m)));
                        }
                    }
                };
                ctx.stats.oracle_evals += 1;
                if ctx.collect_shapes && info.n <= 12 {
                    ctx.stats.shapes.insert((info.n as u32, info.shape_hash));
                }
                ctx.mix(info.shape_hash);
                if ci == 0 {
                    if info.n == 0 && self.last_n > 0 && opkind != "KClear" {
                        ctx.stats.bump("reach.tree_ran_empty_through_lazy_expiry");
                    }
                    self.last_n = info.n;
                }
                if want_arena {
                    if let Err(m) = snap::check_arena(&s, &info) {
                        return Err(invariant("arena", name, opkind, &tag_of(&m), m));
                    }
                    if info.n > self.peak[ci] {
                        self.peak[ci] = info.n;
                    }
                    let bound = 4 * self.peak[ci] + 2 * self.cfg.cap.max(8) + 16;
                    if s.slots.len() > bound {
                        return Err(invariant(
                            "arena",
                            name,
                            opkind,
                            "arena larger than bound",
                            format!("arena has {} slots, bound 4*peak+2*max(hint,8)+16 = {} (peak {}, hint {})", s.slots.len(), bound, self.peak[ci], self.cfg.cap),
                        ));
                    }
                    if opkind == "KClear" && s.unused.len() + 1 != s.slots.len() {
                        return Err(invariant("arena", name, opkind, "clear did not free every slot", format!("after clear {} of {} slots are free", s.unused.len(), s.slots.len().saturating_sub(1))));
                    }
                    ctx.stats.oracle_evals += 1;
                }
            } else if self.cfg.has(O_TORN) {
                // list: sortedness of the physically stored keys
                let ks = c.stored();
                for w in ks.windows(2) {
                    if w[0].key > w[1].key {
                        return Err(invariant("struct", name, opkind, "list not sorted", format!("stored keys {} then {}", w[0].key, w[1].key)));
                    }
                }
                ctx.stats.oracle_evals += 1;
            }
        }
        Ok(())
    }

    fn reach_before_query(&mut self, ctx: &mut RunCtx) {
        // reach counters only; never influences the run
        let t = self.now;
        for ci in 0..self.colls.len() {
            if let Some(c) = self.colls[ci].as_ref() {
                if let Some(m) = c.min_exp() {
                    if m > t {
                        ctx.stats.bump("list.min_exp_shortcut_taken");
                    } else {
                        ctx.stats.bump("list.purge_branch_taken");
                    }
                }
            }
        }
    }

    /// One predecessor / lookup query on every collection. With a fresh twin
    /// (C12) the twin answers first; only then is the cleared instance asked,
    /// so that a crash shared by both is not attributed to `clear`.
    fn do_query(&mut self, step: &Step, ctx: &mut RunCtx) -> Result<(), Stop> {
        let t = self.now;
        let opkind = step.op.kind();
        let (qk, callname, expect): (i32, &'static str, i64) = match step.op {
            Op::KGet { k, .. } => (k, "get_value", self.exp_get(&self.model, t, k).unwrap_or(DEFAULT_VAL + 1)),
            Op::KLess { k, .. } => (k, "first_less", self.exp_pred(&self.model, t, k, false)),
            Op::KLeq { k, .. } => (k, "first_less_or_equal", self.exp_pred(&self.model, t, k, true)),
            Op::KLeqBy { k, fl } => (k, "first_less_or_equal_by", self.exp_pred(&self.model, t, k, fl != 2)),
            _ => unreachable!(),
        };
        let pexp = match step.op {
            Op::KGet { pexp, .. } | Op::KLess { pexp, .. } | Op::KLeq { pexp, .. } => pexp,
            _ => t,
        };
        let owned_oracle = if callname == "get_value" { O_KGET } else { O_KPRED };
        let observed = self.cfg.has(owned_oracle);
        self.reach_before_query(ctx);
        let cfg = self.cfg.clone();
        let op = step.op.clone();
        let run = move |c: &mut Box<dyn KColl>, probe: SimKey| -> i64 {
            match op {
                Op::KGet { .. } => c.get(t, probe).unwrap_or(DEFAULT_VAL + 1),
                Op::KLess { .. } => c.less(t, DEFAULT_VAL, probe),
                Op::KLeq { .. } => c.leq(t, DEFAULT_VAL, probe),
                Op::KLeqBy { fl, .. } => match fl {
                    0 => c.leq_by(t, DEFAULT_VAL, &move |x: SimKey| {
                        closure_sees(&x);
                        x.cmp(&probe)
                    }),
                    1 => c.leq_by(t, DEFAULT_VAL, &move |x: SimKey| {
                        closure_sees(&x);
                        if x.key <= qk {
                            Ordering::Less
                        } else {
                            Ordering::Greater
                        }
                    }),
                    _ => c.leq_by(t, DEFAULT_VAL, &move |x: SimKey| {
                        closure_sees(&x);
                        if x.key < qk {
                            Ordering::Less
                        } else {
                            Ordering::Greater
                        }
                    }),
                },
                _ => unreachable!(),
            }
        };
        for ci in 0..self.colls.len() {
            if self.colls[ci].is_none() {
                continue;
            }
            let name = self.names[ci];
            // fresh twin first
            let mut twin_answer: Option<i64> = None;
            if self.twins[ci].is_some() {
                let pid2 = self.fresh_id();
                let probe2 = SimKey { key: qk, exp: pexp, id: pid2 };
                let tw = self.twins[ci].as_mut().unwrap();
                let (r2, _) = call(ctx, &cfg, twin_name(name), callname, opkind, false, None, None, || run(tw, probe2))?;
                if let Called::Ok(v2) = r2 {
                    twin_answer = Some(v2);
                }
            }
            let before_snap = if ctx.collect_shapes && !self.cfg.has(O_CAP) && self.model.len() <= 2000 && self.cfg.cap <= 1_000_000 { self.colls[ci].as_ref().unwrap().snapshot() } else { None };
            let before_n = before_snap.as_ref().map(|s| s.slots.len().saturating_sub(s.unused.len() + 1));
            if let Some(s) = before_snap.as_ref() {
                // which removal path will the first lazy removal of this query take? (reach measure)
                let mut i = s.root;
                let mut guard = 0usize;
                while (i as usize) < s.slots.len() && guard <= s.slots.len() {
                    guard += 1;
                    let nd = &s.slots[i as usize];
                    if nd.aux <= t {
                        ctx.stats.bump(key2("KeyExpTree.lazy_delete", snap::classify_delete(s, i)));
                        break;
                    }
                    i = match nd.key.cmp(&qk) {
                        Ordering::Less => nd.right,
                        Ordering::Greater => nd.left,
                        Ordering::Equal => {
                            if callname == "first_less" {
                                nd.left
                            } else {
                                break;
                            }
                        }
                    };
                }
            }
            let pid = self.fresh_id();
            let probe = SimKey { key: qk, exp: pexp, id: pid };
            let panic_at = step.panic_at;
            let c = self.colls[ci].as_mut().unwrap();
            let (r, n) = call(ctx, &cfg, name, callname, opkind, observed || twin_answer.is_some(), panic_at, Some((t, pid)), || run(c, probe))?;
            if ci == 0 {
                ctx.cb_counts.push(n);
            }
            match r {
                Called::Ok(v) => {
                    ctx.mix(v as u64);
                    if observed || self.cfg.has(O_TORN) {
                        ctx.stats.oracle_evals += 1;
                        if v != expect {
                            let oracle = if callname == "get_value" { "key.get" } else { "key.pred" };
                            return Err(mismatch(
                                oracle,
                                name,
                                opkind,
                                callname,
                                format!("{}({}) at time {} returned {} but the reference gives {} (model {:?})", callname, qk, t, v, expect, self.model_brief()),
                            ));
                        }
                    }
                    if let Some(v2) = twin_answer {
                        ctx.stats.oracle_evals += 1;
                        if v2 != v {
                            return Err(mismatch("twin", name, opkind, callname, format!("{}({}) at time {}: cleared instance returned {}, fresh twin returned {}", callname, qk, t, v, v2)));
                        }
                    }
                }
                Called::Injected => {
                    // a query has no observable effect: contents must be unchanged
                    self.after_injection(ctx, opkind, None)?;
                }
            }
            if let Some(b) = before_n {
                if let Some(s) = self.colls[ci].as_ref().unwrap().snapshot() {
                    let after = s.slots.len().saturating_sub(s.unused.len() + 1);
                    match b.saturating_sub(after) {
                        0 => ctx.stats.bump("query.lazy_removed_0"),
                        1 => ctx.stats.bump("query.lazy_removed_1"),
                        _ => ctx.stats.bump("query.lazy_removed_2plus"),
                    }
                }
            }
        }
        Ok(())
    }

    /// After an injected callback panic: structure must be valid and the
    /// observable contents must be those before or after the operation.
    /// `after`: the model the completed operation would have produced (None = same as before).
    fn after_injection(&mut self, ctx: &mut RunCtx, opkind: &'static str, after: Option<BTreeMap<i32, MEnt>>) -> Result<(), Stop> {
        if ctx.panic_at != Some(crate::op::CONTROL) {
            ctx.stats.bump("fault.callback_panic_fired");
        }
        if !self.cfg.has(O_TORN) {
            return Ok(());
        }
        self.post_structure(ctx, opkind)?;
        if let Some(a) = after.as_ref() {
            for (k, v) in a.iter() {
                if self.model.get(k) != Some(v) && self.touched.len() < 8 && !self.touched.contains(k) {
                    self.touched.push(*k);
                }
            }
        }
        // whatever the window shows: every live entry of the reference (before, or after) is
        // still physically stored, with its identity
        if self.model.len() <= 5000 {
            let t = self.now;
            for ci in 0..self.colls.len() {
                if let Some(c) = self.colls[ci].as_ref() {
                    let stored: BTreeMap<i32, u32> = c.stored().iter().filter(|k| k.exp > t).map(|k| (k.key, k.id)).collect();
                    let holds = |m: &BTreeMap<i32, MEnt>| m.iter().filter(|(_, e)| e.exp > t).all(|(k, e)| stored.get(k) == Some(&e.id));
                    ctx.stats.oracle_evals += 1;
                    if !holds(&self.model) && !after.as_ref().map(holds).unwrap_or(false) {
                        return Err(mismatch(
                            "torn",
                            self.names[ci],
                            opkind,
                            "live entries neither before nor after",
                            format!("after a callback panic inside {} some live entry of the reference (before and after the operation alike) is no longer stored: {} live entries stored", opkind, stored.len()),
                        ));
                    }
                }
            }
        }
        let kinds = O_KPRED | O_KGET;
        let exp_before = self.expected_observation(&self.model, kinds);
        let exp_after = after.as_ref().map(|m| self.expected_observation(m, kinds));
        for ci in 0..self.colls.len() {
            if self.colls[ci].is_none() {
                continue;
            }
            let got = self.observe(ci, ctx, opkind, kinds, false)?;
            ctx.stats.oracle_evals += got.len() as u64;
            if let Some(ea) = exp_after.as_ref() {
                if got == *ea {
                    ctx.stats.bump("torn.state_after");
                    self.model = after.clone().unwrap();
                    continue;
                }
            }
            if got == exp_before {
                ctx.stats.bump("torn.state_before");
                continue;
            }
            return Err(mismatch(
                "torn",
                self.names[ci],
                opkind,
                "neither before nor after",
                format!("after a callback panic inside {} the observable contents equal neither the state before nor the state after the operation (model before {:?})", opkind, self.model_brief()),
            ));
        }
        Ok(())
    }

    fn do_insert(&mut self, step: &Step, k: i32, exp: i32, ctx: &mut RunCtx) -> Result<(), Stop> {
        let t = self.now;
        let id = self.fresh_id();
        let val = id as i64;
        let key = SimKey { key: k, exp, id };
        if exp == t {
            ctx.stats.bump("fault.expire_at_insert");
        }
        if self.model.get(&k).is_some() {
            ctx.stats.bump("insert.over_expired_equal_key");
        }
        let cfg = self.cfg.clone();
        let mut injected = false;
        for ci in 0..self.colls.len() {
            if self.colls[ci].is_none() {
                continue;
            }
            let name = self.names[ci];
            let mut twin_ok = false;
            if let Some(tw) = self.twins[ci].as_mut() {
                let (r, _) = call(ctx, &cfg, twin_name(name), "insert", "KIns", false, None, None, || tw.insert(key, val, t))?;
                twin_ok = matches!(r, Called::Ok(_));
            }
            if ctx.collect_shapes && !cfg.has(O_CAP) && self.model.len() <= 2000 && cfg.cap <= 1_000_000 {
                if let Some(s) = self.colls[ci].as_ref().unwrap().snapshot() {
                    // the insertion first removes expired nodes on its path, so this is the
                    // repair case only when nothing on the path is expired; count it as reach
                    ctx.stats.bump(key2("KeyExpTree", key2("insert", snap::classify_insert(&s, k))));
                    if s.unused.is_empty() {
                        ctx.stats.bump("KeyExpTree.arena.growth_on_insert");
                    }
                }
            }
            let c = self.colls[ci].as_mut().unwrap();
            let (r, n) = call(ctx, &cfg, name, "insert", "KIns", twin_ok, step.panic_at, Some((t, id)), || c.insert(key, val, t))?;
            if ci == 0 {
                ctx.cb_counts.push(n);
            }
            if let Called::Injected = r {
                injected = true;
            }
        }
        if injected {
            let mut after = self.model.clone();
            after.insert(k, MEnt { exp, val, id });
            self.after_injection(ctx, "KIns", Some(after))?;
        } else {
            self.model.insert(k, MEnt { exp, val, id });
        }
        Ok(())
    }

    fn do_export(&mut self, step: &Step, dt: i32, ctx: &mut RunCtx) -> Result<(), Stop> {
        let t = self.now.saturating_add(dt.max(0)).min(self.tmax);
        let expect: Vec<i64> = self.model.values().filter(|e| e.exp > t).map(|e| e.val).collect();
        if self.model.values().any(|e| e.exp == t) {
            ctx.stats.bump("export.t_equals_an_expiration");
        }
        let cfg = self.cfg.clone();
        let observed = cfg.has(O_KEXPORT) || cfg.has(O_CAP);
        let mut first = true;
        for ci in 0..self.colls.len() {
            let c = match self.colls[ci].take() {
                Some(c) => c,
                None => continue,
            };
            let name = self.names[ci];
            // fresh twin first (C12)
            let mut twin_vec: Option<Vec<i64>> = None;
            if let Some(tw) = self.twins[ci].take() {
                let (r2, _) = call(ctx, &cfg, twin_name(name), "into_ordered_vec", "KExport", false, None, None, || tw.export(t))?;
                if let Called::Ok(v2) = r2 {
                    twin_vec = Some(v2.0);
                }
            }
            let stored = c.stored();
            let n_stored = stored.len();
            if stored.iter().any(|k| k.exp <= t) {
                ctx.stats.bump("export.with_expired_stored");
            }
            if let Some(s) = c.snapshot() {
                if s.unused.windows(2).any(|w| w[0] < w[1]) {
                    ctx.stats.bump("export.after_slots_were_freed");
                }
                if s.slots.len() > cfg.cap.max(8) {
                    ctx.stats.bump("export.after_arena_growth");
                }
            }
            let limit = 1usize << 30;
            if cfg.has(O_CAP) {
                alloc_arm(limit);
            }
            let r = call(ctx, &cfg, name, "into_ordered_vec", "KExport", observed || twin_vec.is_some(), if first { step.panic_at } else { None }, None, || c.export(t));
            let rep = if cfg.has(O_CAP) { Some(alloc_disarm()) } else { None };
            let (r, n) = r?;
            if first {
                ctx.cb_counts.push(n);
                first = false;
            }
            let (v, vcap, vsize) = match r {
                Called::Ok(v) => v,
                Called::Injected => {
                    ctx.stats.bump("fault.callback_panic_fired");
                    continue;
                }
            };
            ctx.mix(v.len() as u64);
            if cfg.has(O_KEXPORT) {
                ctx.stats.oracle_evals += 1;
                // zero-sized values: only how many there are is observable
                let differs = if cfg.key_ty == 3 { v.len() != expect.len() } else { v != expect };
                if differs {
                    let tag = if v.len() > expect.len() {
                        "export has extra values"
                    } else if v.len() < expect.len() {
                        "export misses values"
                    } else {
                        "export differs"
                    };
                    return Err(mismatch("key.export", name, "KExport", tag, format!("into_ordered_vec({}) = {:?}, reference {:?} (model key->exp {:?})", t, brief(&v), brief(&expect), self.model_brief())));
                }
            }
            if cfg.has(O_CAP) {
                ctx.stats.oracle_evals += 1;
                let bound = 4 * n_stored + 64;
                if vcap > bound {
                    return Err(Stop::Fail(crate::op::Failure {
                        oracle: "capacity",
                        coll: name,
                        opkind: "KExport",
                        class: "budget",
                        tag: "capacity over 4n+64".into(),
                        detail: format!("exported vector has capacity {} for {} stored entries (bound {})", vcap, n_stored, bound),
                    }));
                }
                let rep = rep.unwrap();
                let budget = bound * vsize + 65536;
                if rep.max_request > budget {
                    return Err(Stop::Fail(crate::op::Failure {
                        oracle: "capacity",
                        coll: name,
                        opkind: "KExport",
                        class: "budget",
                        tag: "allocation request over budget".into(),
                        detail: format!("export of {} stored entries requested {} bytes in one allocation (budget {})", n_stored, rep.max_request, budget),
                    }));
                }
                ctx.stats.add("alloc.requests_during_export", rep.requests as u64);
            }
            if let Some(v2) = twin_vec {
                ctx.stats.oracle_evals += 1;
                if v2 != v {
                    return Err(mismatch("twin", name, "KExport", "export differs from twin", format!("cleared instance exported {:?}, fresh twin {:?}", brief(&v), brief(&v2))));
                }
            }
        }
        Ok(())
    }

    /// Bulk build: n keys 0, 2, 4, ... in ascending or descending order, inserted in chunks (one
    /// guarded call per chunk) with no query in between; `pat / 2` selects which of them expire at
    /// the next tick. The reference map is built in bulk.
    fn do_bulk(&mut self, n: i32, pat: u8, ctx: &mut RunCtx) -> Result<(), Stop> {
        let cfg = self.cfg.clone();
        let t = self.now;
        let never = self.tmax;
        let soon = t.saturating_add(1).min(self.tmax);
        let later = t.saturating_add(2).min(self.tmax);
        let mode = pat / 2;
        let first_id = self.next_id;
        self.next_id += n as u32;
        ctx.stats.bump(if n > 1_000_000 { "bulk.giant_tree_built" } else { "bulk.large_tree_built" });
        if mode != 0 {
            ctx.stats.bump("bulk.mass_expiry_prepared");
        }
        let key_of = |i: i32| -> i32 { if pat % 2 == 0 { 2 * i } else { 2 * (n - 1 - i) } };
        // expiration as a function of the key's rank r = key / 2
        let exp_of = |r: i32| -> i32 {
            match mode {
                0 => never,
                1 => soon,
                2 => {
                    if r >= n / 3 && r < 2 * (n / 3) {
                        soon
                    } else {
                        never
                    }
                }
                3 => {
                    if r % 2 == 0 {
                        soon
                    } else {
                        never
                    }
                }
                _ => {
                    if r < n / 2 {
                        soon
                    } else {
                        later
                    }
                }
            }
        };
        for ci in 0..self.colls.len() {
            let name = self.names[ci];
            let c = match self.colls[ci].as_mut() {
                Some(c) => c,
                None => continue,
            };
            let mut cb_total = 0u32;
            let mut i0 = 0i32;
            while i0 < n {
                let i1 = (i0 + 2000).min(n);
                let (_, cb) = call(ctx, &cfg, name, "insert (bulk)", "KBulk", false, None, None, || {
                    for i in i0..i1 {
                        let id = first_id + i as u32;
                        let k = key_of(i);
                        c.insert(SimKey { key: k, exp: exp_of(k / 2), id }, id as i64, t);
                    }
                })?;
                cb_total = cb_total.saturating_add(cb);
                i0 = i1;
            }
            if ci == 0 {
                // no crash points inside a bulk build: it only sets the stage
                ctx.cb_counts.push(if cfg.has(O_TORN) { 0 } else { cb_total });
            }
        }
        let mut pairs: Vec<(i32, MEnt)> = (0..n)
            .map(|i| {
                let k = key_of(i);
                (k, MEnt { exp: exp_of(k / 2), val: (first_id + i as u32) as i64, id: first_id + i as u32 })
            })
            .collect();
        if pat % 2 != 0 {
            pairs.reverse();
        }
        self.model = pairs.into_iter().collect();
        Ok(())
    }

    fn do_clear(&mut self, restart: i32, ctx: &mut RunCtx) -> Result<(), Stop> {
        let cfg = self.cfg.clone();
        let had_expired = self.colls.iter().flatten().any(|c| c.stored().iter().any(|k| k.exp <= self.now));
        if had_expired {
            ctx.stats.bump("clear.with_expired_unremoved");
        }
        if self.model.is_empty() {
            ctx.stats.bump("clear.of_empty");
        }
        for ci in 0..self.colls.len() {
            let name = self.names[ci];
            if let Some(c) = self.colls[ci].as_mut() {
                let (_, n) = call(ctx, &cfg, name, "clear", "KClear", cfg.has(O_TWIN), None, None, || c.clear())?;
                if ci == 0 {
                    ctx.cb_counts.push(n);
                }
            }
        }
        self.model.clear();
        if restart >= 0 && restart < self.now {
            self.now = restart;
            ctx.stats.bump("fault.clock_restart_after_clear");
        }
        self.cleared_once = true;
        if cfg.has(O_TWIN) {
            for ci in 0..self.colls.len() {
                if let Some(c) = self.colls[ci].as_ref() {
                    self.twins[ci] = Some(c.fresh(cfg.cap));
                    ctx.stats.oracle_evals += 1;
                    if !c.is_empty() {
                        return Err(mismatch("twin", self.names[ci], "KClear", "not empty after clear", "is_empty() is false right after clear()".into()));
                    }
                }
            }
            self.sweep_check(ctx, "KClear", true)?;
        }
        Ok(())
    }

    fn do_empty(&mut self, ctx: &mut RunCtx) -> Result<(), Stop> {
        let t = self.now;
        let any_live = self.model.values().any(|e| e.exp > t);
        let cfg = self.cfg.clone();
        for ci in 0..self.colls.len() {
            let name = self.names[ci];
            let mut twin_e: Option<bool> = None;
            if let Some(tw) = self.twins[ci].as_ref() {
                let (r2, _) = call(ctx, &cfg, twin_name(name), "is_empty", "KEmpty", false, None, None, || tw.is_empty())?;
                if let Called::Ok(e2) = r2 {
                    twin_e = Some(e2);
                }
            }
            if let Some(c) = self.colls[ci].as_ref() {
                let (r, n) = call(ctx, &cfg, name, "is_empty", "KEmpty", cfg.has(O_KEMPTY) || twin_e.is_some(), None, None, || c.is_empty())?;
                if ci == 0 {
                    ctx.cb_counts.push(n);
                }
                if let Called::Ok(e) = r {
                    ctx.mix(e as u64);
                    if cfg.has(O_KEMPTY) {
                        ctx.stats.oracle_evals += 1;
                        if any_live && e {
                            return Err(mismatch("key.empty", name, "KEmpty", "empty with live entry", format!("is_empty() is true at time {} although a live entry exists (model {:?})", t, self.model_brief())));
                        }
                    }
                    if let Some(e2) = twin_e {
                        ctx.stats.oracle_evals += 1;
                        if e2 != e {
                            return Err(mismatch("twin", name, "KEmpty", "is_empty differs from twin", format!("cleared instance is_empty = {}, fresh twin = {}", e, e2)));
                        }
                    }
                }
            }
        }
        Ok(())
    }

    // ------------------------------------------------------------------ generation

    fn pick_key(&mut self, r: &mut Rng) -> i32 {
        let lo = self.cfg.key_lo;
        let u = self.cfg.universe.max(1);
        let g = &mut self.gen;
        let k = match g.key_pattern {
            0 => lo + r.below(u as u64) as i32,
            1 => g.last_key + 1,
            2 => g.last_key - 1,
            3 => {
                // zig-zag outwards from the middle
                g.zig = !g.zig;
                let mid = lo + u / 2;
                let d = (g.last_key - mid).abs() + 1;
                if g.zig {
                    mid + d
                } else {
                    mid - d
                }
            }
            4 => g.last_key + *r.pick(&[-1, 1, 1, 2, -2]),
            _ => {
                if r.chance(1, 2) {
                    lo + r.below(u as u64) as i32
                } else {
                    g.last_key + *r.pick(&[-1, 1])
                }
            }
        };
        // wrap into the universe
        let k = lo + (k - lo).rem_euclid(u);
        g.last_key = k;
        k
    }

    fn pick_exp(&mut self, r: &mut Rng) -> i32 {
        let t = self.now;
        if self.gen.forest == 1 {
            if self.gen.forest_short_only {
                return t.saturating_add(1 + r.below(3) as i32).min(self.tmax);
            }
            return match r.below(8) {
                0 | 1 | 2 => t.saturating_add(1),
                3 | 4 => t.saturating_add(2),
                5 => t.saturating_add(3),
                6 => t.saturating_add(1000).min(self.tmax),
                _ => self.tmax,
            }
            .min(self.tmax);
        }
        let g = &self.gen;
        let h = match r.weighted(&g.horizon_w) {
            0 => 0,
            1 => 1,
            2 => r.range(2, g.horizon_short as i64) as i32,
            3 => r.range(2, g.horizon_long as i64) as i32,
            4 => return self.tmax,
            _ => {
                // coincide with an existing expiration if there is one
                let live: Vec<i32> = self.model.values().filter(|e| e.exp >= t).map(|e| e.exp).take(8).collect();
                if live.is_empty() {
                    1
                } else {
                    return *r.pick(&live);
                }
            }
        };
        t.saturating_add(h).min(self.tmax)
    }

    fn pick_probe(&mut self, r: &mut Rng) -> i32 {
        let lo = self.cfg.key_lo;
        let u = self.cfg.universe.max(1);
        let t = self.now;
        match r.weighted(&self.gen.probe_w) {
            0 => {
                // equal to a stored live key
                let live: Vec<i32> = self.model.iter().filter(|(_, e)| e.exp > t).map(|(k, _)| *k).collect();
                if live.is_empty() {
                    lo + r.below(u as u64) as i32
                } else {
                    *r.pick(&live)
                }
            }
            1 => {
                // equal to an expired key that may still be stored
                let dead: Vec<i32> = self.model.iter().filter(|(_, e)| e.exp <= t).map(|(k, _)| *k).collect();
                if dead.is_empty() {
                    lo + r.below(u as u64) as i32
                } else {
                    *r.pick(&dead)
                }
            }
            2 => lo - 1 - r.below(2) as i32,
            3 => lo + u + r.below(2) as i32,
            4 => {
                // next to a stored key
                let ks: Vec<i32> = self.model.keys().copied().collect();
                if ks.is_empty() {
                    lo + r.below(u as u64) as i32
                } else {
                    r.pick(&ks).saturating_add(*r.pick(&[-1, 1]))
                }
            }
            _ => lo + r.below(u as u64) as i32,
        }
    }

    fn schedule_events(&mut self, k: i32, exp: i32) {
        if exp == self.tmax {
            return;
        }
        let g = &mut self.gen;
        if g.events.len() > 64 {
            return;
        }
        for (t, kind) in [(exp.saturating_sub(1), 0u8), (exp, 0u8), (exp, 1u8), (exp, 2u8)] {
            g.ev_seq += 1;
            g.events.insert((t, g.ev_seq, kind, k));
        }
    }

    fn gen_query(&mut self, r: &mut Rng, which: usize) -> Op {
        let k = self.pick_probe(r);
        let pexp = match r.below(4) {
            0 => self.now,
            1 => 0,
            2 => i32::MAX,
            _ => self.now.saturating_add(r.range(-5, 5) as i32),
        };
        match which {
            W_GET => Op::KGet { k, pexp },
            W_LESS => Op::KLess { k, pexp },
            W_LEQ => Op::KLeq { k, pexp },
            _ => Op::KLeqBy { k, fl: r.below(3) as u8 },
        }
    }

    fn gen_final_export(&mut self, r: &mut Rng) -> Op {
        let t = self.now;
        let exps: Vec<i32> = self.model.values().map(|e| e.exp).filter(|e| *e >= t).collect();
        let dt = if exps.is_empty() {
            r.below(3) as i32
        } else {
            let mx = *exps.iter().max().unwrap();
            let mn = *exps.iter().min().unwrap();
            match r.below(7) {
                0 => 0,
                1 => r.pick(&exps).saturating_sub(t),                 // equal to some expiration
                2 => r.pick(&exps).saturating_sub(t).saturating_sub(1).max(0),    // just below one
                3 => mx.saturating_sub(t).saturating_add(1), // above all
                4 => mn.saturating_sub(t).max(0),                    // at the earliest
                5 => r.range(0, (mx.saturating_sub(t)).max(0) as i64) as i32,
                _ => 0,
            }
        };
        Op::KExport { dt }
    }
}

fn brief(v: &[i64]) -> Vec<i64> {
    v.iter().take(16).copied().collect()
}

impl World for KeyWorld {
    fn legal(&self, op: &Op) -> bool {
        match op {
            Op::Tick { dt } => *dt >= 0,
            Op::KIns { k: _, exp } if *exp < self.now || *exp > self.tmax => false,
            Op::KIns { k, .. } => match self.model.get(k) {
                Some(e) => e.exp <= self.now,
                None => true,
            },
            Op::KGet { .. } | Op::KLess { .. } | Op::KLeq { .. } | Op::KEmpty | Op::KSweep => true,
            Op::KLeqBy { fl, .. } => *fl <= 2,
            Op::KClear { .. } => true,
            Op::KExport { dt } => *dt >= 0,
            // (the sorted list takes part only in ascending builds of moderate size: anything else is quadratic)
            Op::KBulk { n, pat } => self.model.is_empty() && !self.cleared_once && *n > 0 && *pat <= 9 && self.now < self.tmax && self.colls.iter().flatten().all(|c| c.snapshot().is_some() || (*pat % 2 == 0 && *n <= 100_000)),
            _ => false,
        }
    }

    fn apply(&mut self, step: &Step, ctx: &mut RunCtx) -> Result<Flow, Stop> {
        ctx.stats.ops += 1;
        ctx.panic_at = step.panic_at;
        let n_before = ctx.cb_counts.len();
        // the key this operation is about is part of every observation window that follows it
        match step.op {
            Op::KIns { k, .. } | Op::KGet { k, .. } | Op::KLess { k, .. } | Op::KLeq { k, .. } | Op::KLeqBy { k, .. } => {
                self.touched.clear();
                self.touched.push(k);
            }
            _ => {}
        }
        match step.op {
            Op::Tick { dt } => {
                let old = self.now;
                self.now = self.now.saturating_add(dt.max(0)).min(self.tmax);
                if self.now == self.tmax && old != self.tmax {
                    ctx.stats.bump("fault.clock_reaches_end_of_time_line");
                }
                ctx.stats.ticks += (self.now as i64 - old as i64) as u64;
                match dt {
                    0 => ctx.stats.bump("fault.clock_stall"),
                    1 => ctx.stats.bump("fault.clock_tick"),
                    _ => ctx.stats.bump("fault.clock_jump"),
                }
                // (reach counter only; not on bulk-size models, where the scan per tick is quadratic)
                if dt > 0 && self.model.len() <= 5000 && self.model.values().any(|e| e.exp == self.now) {
                    ctx.stats.bump("fault.clock_lands_on_expiration");
                }
                ctx.cb_counts.push(0);
                if step.panic_at == Some(crate::op::CONTROL) {
                    self.after_injection(ctx, "Tick", None)?;
                }
                return Ok(Flow::Continue);
            }
            Op::KIns { k, exp } => {
                self.do_insert(step, k, exp, ctx)?;
                self.post_structure(ctx, "KIns")?;
                if self.gen.sweep_after_mut > 0 && self.cfg.has(O_KPRED | O_KGET) && step.panic_at.is_none() && self.cfg.universe <= 24 && self.gen.sweep_after_mut == 2 {
                    // (generation-time option only; recorded runs carry explicit KSweep steps)
                }
            }
            Op::KGet { .. } | Op::KLess { .. } | Op::KLeq { .. } | Op::KLeqBy { .. } => {
                self.do_query(step, ctx)?;
                self.post_structure(ctx, step.op.kind())?;
            }
            Op::KEmpty => self.do_empty(ctx)?,
            Op::KSweep => {
                self.sweep_check(ctx, "KSweep", false)?;
                self.post_structure(ctx, "KSweep")?;
                ctx.cb_counts.push(0);
            }
            Op::KClear { restart } => {
                self.do_clear(restart, ctx)?;
                self.post_structure(ctx, "KClear")?;
            }
            Op::KBulk { n, pat } => {
                self.do_bulk(n, pat, ctx)?;
                self.post_structure(ctx, "KBulk")?;
            }
            Op::KExport { dt } => {
                self.do_export(step, dt, ctx)?;
                if ctx.cb_counts.len() == n_before {
                    ctx.cb_counts.push(0);
                }
                return Ok(Flow::End);
            }
            _ => return Err(Stop::Inconclusive("operation of another world".into())),
        }
        if ctx.cb_counts.len() == n_before {
            ctx.cb_counts.push(0);
        }
        if step.panic_at == Some(crate::op::CONTROL) {
            // control run of C18: same checks as after an injected panic, without the panic
            self.after_injection(ctx, step.op.kind(), None)?;
        }
        Ok(Flow::Continue)
    }

    fn gen(&mut self, r: &mut Rng, _ctx: &mut RunCtx, remaining: usize) -> Op {
        if remaining == 1 && self.gen.export_at_end {
            return self.gen_final_export(r);
        }
        self.gen.generated += 1;
        if self.gen.generated == 1 && self.gen.forest == 1 {
            // the forest must fit into this run: build phase + landing + burst
            let room = remaining.saturating_sub(20);
            match self.gen.fill_target {
                Some(t) if room >= 15 => self.gen.fill_target = Some(t.min(room)),
                _ => {
                    self.gen.forest = 0;
                    self.gen.fill_target = None;
                }
            }
        }
        if self.gen.generated == 1 && self.model.len() >= 64 {
            // the run started with a bulk build: let the clock pass the early expirations, then
            // operations of every kind of this run's alphabet at the edges of the expired block(s),
            // inside them, at both extremes and at the root; insertions into the expired region
            self.gen.forest = 0;
            self.gen.pulse = false;
            self.gen.fill_target = None;
            let n = self.model.len();
            let nth = |m: &BTreeMap<i32, MEnt>, i: usize| -> i32 { *m.keys().nth(i.min(n - 1)).unwrap() };
            let mut probes: Vec<i32> = vec![nth(&self.model, 0), nth(&self.model, n - 1), nth(&self.model, n / 3), nth(&self.model, n / 3).saturating_sub(1), nth(&self.model, n / 2), nth(&self.model, 2 * (n / 3)), nth(&self.model, (2 * (n / 3)).saturating_sub(1)), nth(&self.model, n / 2).saturating_add(1)];
            if n <= 1_000_000 {
                if let Some(s) = self.colls.first().and_then(|c| c.as_ref()).and_then(|c| c.snapshot()) {
                    if let Some(nd) = s.slots.get(s.root as usize) {
                        probes.push(nd.key);
                    }
                }
            }
            self.gen.pending.push_back(Op::Tick { dt: *r.pick(&[1, 1, 2, 2, 3]) });
            let w = self.gen.w;
            let mut ops: Vec<Op> = Vec::new();
            for &p in &probes {
                if w[W_LEQ] > 0 {
                    ops.push(Op::KLeq { k: p, pexp: 0 });
                }
                if w[W_LESS] > 0 {
                    ops.push(Op::KLess { k: p, pexp: 0 });
                }
                if w[W_LEQBY] > 0 {
                    ops.push(Op::KLeqBy { k: p, fl: (p & 1) as u8 });
                }
                if w[W_GET] > 0 {
                    ops.push(Op::KGet { k: p, pexp: i32::MAX });
                }
                ops.push(Op::KIns { k: p, exp: self.tmax });
            }
            // a random dozen of them, in random order
            for i in (1..ops.len()).rev() {
                let j = r.below(i as u64 + 1) as usize;
                ops.swap(i, j);
            }
            for op in ops.into_iter().take(12) {
                self.gen.pending.push_back(op);
            }
        }
        if self.gen.forced_clear_at == Some(self.gen.generated - 1) {
            let restart = if r.chance(1, 2) && self.now > 0 { r.range(0, self.now as i64 - 1) as i32 } else { -1 };
            self.gen.events.clear();
            return Op::KClear { restart };
        }
        while let Some(op) = self.gen.pending.pop_front() {
            if self.legal(&op) {
                return op;
            }
        }
        if let Some(t0) = self.gen.fill_target {
            let target = if t0 >= 1_000_000 { self.resolve_fill_target(t0) } else { t0 };
            self.gen.fill_target = Some(target);
            if self.stored_count() < target && (self.cfg.universe as usize) > target + 1 {
                for _ in 0..12 {
                    let k = self.pick_key(r);
                    let mut exp = self.pick_exp(r);
                    if exp == self.now && r.chance(1, 2) {
                        exp = self.now.saturating_add(1);
                    }
                    let op = Op::KIns { k, exp };
                    if self.legal(&op) {
                        self.schedule_events(k, exp);
                        return op;
                    }
                }
            }
            self.gen.fill_target = None;
            if self.gen.forest == 1 {
                self.gen.forest = 2;
                self.gen.forest_burst = 12 + r.below(20) as u32;
                self.gen.events.clear();
                let dt = if self.gen.forest_short_only && r.chance(1, 2) { 3 } else { 1 + r.below(3) as i32 };
                return Op::Tick { dt };
            }
            if self.gen.clear_after_fill {
                // "fill, clear, fill again": the second fill is relative to the arena as the clear left it
                self.gen.clear_after_fill = false;
                self.gen.fill_target = Some(Self::draw_fill_target(&self.cfg, r));
                self.gen.events.clear();
                let restart = if r.chance(1, 3) && self.now > 0 { r.range(0, self.now as i64 - 1) as i32 } else { -1 };
                return Op::KClear { restart };
            }
        }
        if self.gen.pulse {
            // phase 0..k: inserts; then the tick; then one operation at the new instant
            let ph = self.gen.pulse_phase;
            self.gen.pulse_phase = ph.wrapping_add(1);
            let inserts = 1 + (self.gen.generated % 3) as u8;
            if ph < inserts {
                for _ in 0..6 {
                    let k = self.pick_key(r);
                    let exp = self.now.saturating_add(1 + r.below(2) as i32);
                    let op = Op::KIns { k, exp };
                    if self.legal(&op) {
                        return op;
                    }
                }
            } else if ph == inserts {
                return Op::Tick { dt: 2 };
            } else {
                self.gen.pulse_phase = 0;
                if r.chance(1, 40) {
                    // now and then leave the plan for good (the rest of the run is ordinary)
                    self.gen.pulse = false;
                }
                match r.below(4) {
                    0 => {} // the next cycle's first insert meets the expired entries
                    1 => return self.gen_query(r, W_LEQ),
                    2 => return self.gen_query(r, W_LESS),
                    _ => return self.gen_query(r, if self.gen.w[W_GET] > 0 { W_GET } else { W_LEQBY }),
                }
                self.gen.pulse_phase = 1;
                for _ in 0..6 {
                    let k = self.pick_key(r);
                    let exp = self.now.saturating_add(1 + r.below(2) as i32);
                    let op = Op::KIns { k, exp };
                    if self.legal(&op) {
                        return op;
                    }
                }
            }
        }
        if self.gen.forest == 2 {
            if self.gen.forest_burst == 0 {
                self.gen.forest = 0;
            } else {
                self.gen.forest_burst -= 1;
                // queries of every kind over stored keys and their neighbours, a few inserts and ticks
                let pick = r.below(10);
                if pick < 7 {
                    let which = *r.pick(&[W_GET, W_LESS, W_LEQ, W_LEQBY, W_LESS, W_LEQ]);
                    let allowed = which != W_GET || self.cfg.has(O_KGET | O_MON | O_CRASH | O_TWIN | O_TORN | O_STRUCT | O_ARENA);
                    if allowed {
                        return self.gen_query(r, which);
                    }
                    return self.gen_query(r, W_LEQ);
                } else if pick == 7 {
                    return Op::Tick { dt: 1 };
                }
            }
        }
        for _ in 0..8 {
            let which = r.weighted(&self.gen.w.clone());
            match which {
                W_INS => {
                    for _ in 0..6 {
                        let k = self.pick_key(r);
                        let exp = self.pick_exp(r);
                        let op = Op::KIns { k, exp };
                        if self.legal(&op) {
                            self.schedule_events(k, exp);
                            if self.gen.sweep_after_mut == 2 || (self.gen.sweep_after_mut == 1 && r.chance(1, 4)) {
                                self.gen.pending.push_back(Op::KSweep);
                            }
                            return op;
                        }
                    }
                }
                W_GET | W_LESS | W_LEQ | W_LEQBY => return self.gen_query(r, which),
                W_EMPTY => return Op::KEmpty,
                W_SWEEP => return Op::KSweep,
                W_TICK => return Op::Tick { dt: r.below(2) as i32 },
                W_JUMP => {
                    let far = r.below(100) < self.gen.far_jump_pct;
                    let dt = if far { *r.pick(&[i32::MAX, i32::MAX / 2, 1_000_000]) } else { r.range(2, (self.gen.horizon_long as i64).min(64)) as i32 };
                    return Op::Tick { dt };
                }
                W_LAND => {
                    // land exactly on (or just before) the next expiration
                    let t = self.now;
                    let next = self.model.values().map(|e| e.exp).filter(|e| *e > t && *e != self.tmax).min();
                    if let Some(e) = next {
                        let dt = if r.chance(2, 3) { e.saturating_sub(t) } else { e.saturating_sub(t).saturating_sub(1).max(0) };
                        return Op::Tick { dt };
                    }
                }
                W_EVENT => {
                    // pop the next boundary event and jump the clock to it
                    while let Some(ev) = self.gen.events.iter().next().copied() {
                        self.gen.events.remove(&ev);
                        let (t, _, kind, k) = ev;
                        if t < self.now {
                            continue;
                        }
                        let follow = match kind {
                            0 => match r.below(5) {
                                0 => Op::KGet { k, pexp: t },
                                1 => Op::KLess { k: k + 1, pexp: t },
                                2 => Op::KLeq { k, pexp: t },
                                3 => Op::KLeqBy { k, fl: r.below(2) as u8 },
                                _ => Op::KLess { k, pexp: t },
                            },
                            1 => {
                                // re-insert the same key exactly when the old entry has expired
                                let g = self.gen.horizon_short;
                                Op::KIns { k, exp: t.saturating_add(r.range(0, g as i64) as i32) }
                            }
                            _ => Op::KSweep,
                        };
                        self.gen.pending.push_back(follow);
                        return Op::Tick { dt: t.saturating_sub(self.now) };
                    }
                }
                W_CLEAR => {
                    let restart = if r.chance(1, 2) && self.now > 0 { r.range(0, self.now as i64 - 1) as i32 } else { -1 };
                    self.gen.events.clear();
                    if r.below(100) < self.gen.fill_pct {
                        self.gen.fill_target = Some(Self::draw_fill_target(&self.cfg, r));
                    }
                    return Op::KClear { restart };
                }
                _ => {}
            }
        }
        Op::Tick { dt: 1 }
    }

    fn now(&self) -> i64 {
        self.now as i64
    }
}
