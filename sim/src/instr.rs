//! The environment side of the seams: instrumented key / value / accessor
//! types, the callback-panic fault injector, the comparison monitor (C20),
//! the allocator monitor (C19) and the `guarded` wrapper every call into
//! iTree goes through.

use i_tree::set::sort::KeyValue;
use i_tree::{ExpiredKey, ExpiredVal};
use std::alloc::{GlobalAlloc, Layout, System};
use std::cell::{Cell, RefCell};
use std::cmp::Ordering;
use std::panic::{catch_unwind, AssertUnwindSafe};
use std::sync::atomic::{AtomicBool, AtomicU64, AtomicUsize, Ordering as AO};

// ---------------------------------------------------------------------------
// thread-local simulation context

pub struct Ctx {
    /// callbacks are counted / may be turned into panics only while armed
    armed: Cell<bool>,
    count: Cell<u32>,
    panic_at: Cell<u32>,
    fired: Cell<bool>,
    // comparison monitor
    mon_on: Cell<bool>,
    mon_time: Cell<i32>,
    mon_probe: Cell<u32>,
    mon_viol: Cell<u64>, // 0 = none, else packed (kind<<60 | id)
    mon_viol_key: Cell<i32>,
    mon_viol_exp: Cell<i32>,
    mon_calls: Cell<u64>,
    // totals for evidence
    pub total_callbacks: Cell<u64>,
}

thread_local! {
    static CTX: Ctx = const { Ctx {
        armed: Cell::new(false), count: Cell::new(0), panic_at: Cell::new(u32::MAX), fired: Cell::new(false),
        mon_on: Cell::new(false), mon_time: Cell::new(0), mon_probe: Cell::new(0), mon_viol: Cell::new(0),
        mon_viol_key: Cell::new(0), mon_viol_exp: Cell::new(0), mon_calls: Cell::new(0),
        total_callbacks: Cell::new(0),
    } };
    static LAST_PANIC: RefCell<String> = const { RefCell::new(String::new()) };
}

/// Private payload type of injected panics.
pub struct Injected;

pub const CB_CMP: u64 = 1;
pub const CB_CLOSURE: u64 = 2;

#[inline]
fn callback() {
    CTX.with(|c| {
        if c.armed.get() {
            let n = c.count.get();
            c.count.set(n.saturating_add(1));
            if n == c.panic_at.get() && n != u32::MAX {
                c.fired.set(true);
                c.armed.set(false);
                std::panic::panic_any(Injected);
            }
        }
    });
}

#[inline]
fn monitor(kind: u64, k: &SimKey) {
    monitor_raw(kind, k.id, k.exp, k.key)
}

#[inline]
fn monitor_raw(kind: u64, id: u32, exp: i32, key: i32) {
    CTX.with(|c| {
        if c.mon_on.get() {
            c.mon_calls.set(c.mon_calls.get().wrapping_add(1));
            if id == c.mon_probe.get() && id != 0 {
                return;
            }
            if (id == 0 || exp <= c.mon_time.get()) && c.mon_viol.get() == 0 {
                c.mon_viol.set((kind << 60) | (id as u64 + 1));
                c.mon_viol_key.set(key);
                c.mon_viol_exp.set(exp);
            }
        }
    });
}

pub fn install_panic_hook(verbose: bool) {
    std::panic::set_hook(Box::new(move |info| {
        if info.payload().downcast_ref::<Injected>().is_some() {
            return;
        }
        let msg = if let Some(s) = info.payload().downcast_ref::<&str>() {
            s.to_string()
        } else if let Some(s) = info.payload().downcast_ref::<String>() {
            s.clone()
        } else {
            "<non-string panic payload>".to_string()
        };
        let loc = info.location().map(|l| format!("{}:{}", l.file(), l.line())).unwrap_or_default();
        let full = format!("{} @ {}", msg, loc);
        if verbose || true {
            // a non-unwinding panic is about to abort the process: leave a trace on stderr
            eprintln!("PANIC {}", full);
        }
        LAST_PANIC.with(|p| *p.borrow_mut() = full);
    }));
}

pub enum Caught<T> {
    Ok(T),
    /// the injected callback panic fired and unwound out of the operation
    Injected,
    /// the operation panicked by itself (message @ location)
    Panic(String),
}

pub struct MonitorReport {
    pub kind: &'static str,
    pub key: i32,
    pub exp: i32,
    pub id: u32,
}

/// Heartbeat for the watchdog: incremented at every entry/exit of a guarded call.
pub static HEARTBEAT: AtomicU64 = AtomicU64::new(0);
pub static BUSY: AtomicBool = AtomicBool::new(false);

/// Run one call into iTree with the instrumentation armed.
/// `panic_at`: callback invocation index (0-based, within this call) at which
/// the injector panics. `mon`: (time, probe id) for the comparison monitor.
/// Returns the outcome and the number of callback invocations observed.
pub fn guarded<T>(panic_at: Option<u32>, mon: Option<(i32, u32)>, f: impl FnOnce() -> T) -> (Caught<T>, u32, Option<MonitorReport>) {
    CTX.with(|c| {
        c.count.set(0);
        c.fired.set(false);
        // u32::MAX = no crash point; u32::MAX - 1 = control run (checks without a fault)
        c.panic_at.set(panic_at.filter(|j| *j < u32::MAX - 1).unwrap_or(u32::MAX));
        if let Some((t, p)) = mon {
            c.mon_on.set(true);
            c.mon_time.set(t);
            c.mon_probe.set(p);
            c.mon_viol.set(0);
        }
        c.armed.set(true);
    });
    HEARTBEAT.fetch_add(1, AO::Relaxed);
    BUSY.store(true, AO::Relaxed);
    let r = catch_unwind(AssertUnwindSafe(f));
    BUSY.store(false, AO::Relaxed);
    HEARTBEAT.fetch_add(1, AO::Relaxed);
    CTX.with(|c| {
        c.armed.set(false);
        c.mon_on.set(false);
        let n = c.count.get();
        c.total_callbacks.set(c.total_callbacks.get().wrapping_add(n as u64));
        let rep = if mon.is_some() && c.mon_viol.get() != 0 {
            let v = c.mon_viol.get();
            Some(MonitorReport {
                kind: if (v >> 60) == CB_CMP { "Ord::cmp" } else { "closure" },
                key: c.mon_viol_key.get(),
                exp: c.mon_viol_exp.get(),
                id: ((v & 0x1_FFFF_FFFF) - 1) as u32,
            })
        } else {
            None
        };
        match r {
            Ok(v) => (Caught::Ok(v), n, rep),
            Err(p) => {
                if p.downcast_ref::<Injected>().is_some() {
                    (Caught::Injected, n, rep)
                } else {
                    let msg = LAST_PANIC.with(|p| p.borrow().clone());
                    (Caught::Panic(msg), n, rep)
                }
            }
        }
    })
}

pub fn monitor_calls() -> u64 {
    CTX.with(|c| c.mon_calls.get())
}
pub fn total_callbacks() -> u64 {
    CTX.with(|c| c.total_callbacks.get())
}

// ---------------------------------------------------------------------------
// instrumented types

/// Key of the ordered map / ordered set worlds.
#[derive(Clone, Copy, Debug, Default)]
pub struct IKey(pub i32);

impl PartialEq for IKey {
    fn eq(&self, o: &Self) -> bool {
        // `==` is the caller's comparison code as much as `cmp` is
        callback();
        self.0 == o.0
    }
}
impl Eq for IKey {}
impl PartialOrd for IKey {
    #[inline]
    fn partial_cmp(&self, o: &Self) -> Option<Ordering> {
        Some(self.cmp(o))
    }
}
impl Ord for IKey {
    #[inline]
    fn cmp(&self, o: &Self) -> Ordering {
        callback();
        self.0.cmp(&o.0)
    }
}

/// Key of the expiring-key world. Ordered by `key` only; `exp` is what the
/// expiration accessor returns; `id` identifies the insertion (0 = never
/// initialised memory).
#[derive(Clone, Copy, Debug)]
pub struct SimKey {
    pub key: i32,
    pub exp: i32,
    pub id: u32,
}

impl PartialEq for SimKey {
    fn eq(&self, o: &Self) -> bool {
        callback();
        monitor(CB_CMP, self);
        monitor(CB_CMP, o);
        self.key == o.key
    }
}
impl Eq for SimKey {}
impl PartialOrd for SimKey {
    #[inline]
    fn partial_cmp(&self, o: &Self) -> Option<Ordering> {
        Some(self.cmp(o))
    }
}
impl Ord for SimKey {
    #[inline]
    fn cmp(&self, o: &Self) -> Ordering {
        callback();
        monitor(CB_CMP, self);
        monitor(CB_CMP, o);
        self.key.cmp(&o.key)
    }
}
impl ExpiredKey<i32> for SimKey {
    #[inline]
    fn expiration(&self) -> i32 {
        callback();
        self.exp
    }
}

/// Key of the expiring-key world in its *narrow* instantiation
/// (`KeyExpTree<NKey, u8, u32>`): another key size and alignment, a clock type
/// whose maximum (255) is reached in every other run, 32-bit values. Same
/// instrumentation as `SimKey`.
#[derive(Clone, Copy, Debug)]
pub struct NKey {
    pub key: i64,
    pub exp: u8,
    pub id: u32,
}

impl PartialEq for NKey {
    fn eq(&self, o: &Self) -> bool {
        callback();
        monitor_raw(CB_CMP, self.id, self.exp as i32, self.key as i32);
        monitor_raw(CB_CMP, o.id, o.exp as i32, o.key as i32);
        self.key == o.key
    }
}
impl Eq for NKey {}
impl PartialOrd for NKey {
    #[inline]
    fn partial_cmp(&self, o: &Self) -> Option<Ordering> {
        Some(self.cmp(o))
    }
}
impl Ord for NKey {
    #[inline]
    fn cmp(&self, o: &Self) -> Ordering {
        callback();
        monitor_raw(CB_CMP, self.id, self.exp as i32, self.key as i32);
        monitor_raw(CB_CMP, o.id, o.exp as i32, o.key as i32);
        self.key.cmp(&o.key)
    }
}
impl ExpiredKey<u8> for NKey {
    #[inline]
    fn expiration(&self) -> u8 {
        callback();
        self.exp
    }
}

/// Key of the expiring-key world in its *fat* instantiation (`KeyExpTree<FKey, i32, i64>`):
/// a 280-byte key, so that every "entries above N bytes take another path" threshold up to 256
/// has an instantiation on either side of it. Same instrumentation as `SimKey`.
#[derive(Clone, Copy, Debug)]
pub struct FKey {
    pub key: i32,
    pub exp: i32,
    pub id: u32,
    pub pad: [u64; 33],
}

impl FKey {
    #[inline]
    pub fn from_sim(k: SimKey) -> FKey {
        FKey { key: k.key, exp: k.exp, id: k.id, pad: [k.id as u64; 33] }
    }
    #[inline]
    pub fn to_sim(&self) -> SimKey {
        SimKey { key: self.key, exp: self.exp, id: self.id }
    }
}
impl PartialEq for FKey {
    fn eq(&self, o: &Self) -> bool {
        callback();
        monitor_raw(CB_CMP, self.id, self.exp, self.key);
        monitor_raw(CB_CMP, o.id, o.exp, o.key);
        self.key == o.key
    }
}
impl Eq for FKey {}
impl PartialOrd for FKey {
    #[inline]
    fn partial_cmp(&self, o: &Self) -> Option<Ordering> {
        Some(self.cmp(o))
    }
}
impl Ord for FKey {
    #[inline]
    fn cmp(&self, o: &Self) -> Ordering {
        callback();
        monitor_raw(CB_CMP, self.id, self.exp, self.key);
        monitor_raw(CB_CMP, o.id, o.exp, o.key);
        self.key.cmp(&o.key)
    }
}
impl ExpiredKey<i32> for FKey {
    #[inline]
    fn expiration(&self) -> i32 {
        callback();
        self.exp
    }
}

/// What a comparator closure does with the key it is handed.
#[inline]
pub fn closure_sees(k: &SimKey) {
    callback();
    monitor(CB_CLOSURE, k);
}
#[inline]
pub fn closure_called() {
    callback();
}

/// Non-trivially cloneable value with identity: (key it was inserted for, version).
/// The payload lives in a harness-owned arena (the simulated heap of the
/// values) and the value itself is only the handle into it, so that what a
/// real heap value would suffer from a library that duplicates it bitwise
/// instead of cloning it - a double free, a use after free - is detected
/// deterministically (second drop, access after drop) without corrupting the
/// process, and the run continues and replays exactly.
pub struct Tracked {
    idx: u32,
}

#[derive(Clone, Copy)]
struct Ent {
    k: i32,
    v: u32,
    dropped: bool,
}

thread_local! {
    static ARENA: RefCell<Vec<Ent>> = const { RefCell::new(Vec::new()) };
    static DOUBLE_DROP: Cell<Option<(i32, u32)>> = const { Cell::new(None) };
    static EPOCH: Cell<u32> = const { Cell::new(0) };
}

fn arena_new(k: i32, v: u32) -> u32 {
    ARENA.with(|a| {
        let mut a = a.borrow_mut();
        a.push(Ent { k, v, dropped: false });
        (a.len() - 1) as u32
    })
}

/// Forget all values (start of a run; every value of the previous run is gone by then).
pub fn registry_reset() {
    ARENA.with(|a| a.borrow_mut().clear());
    DOUBLE_DROP.with(|d| d.set(None));
    EPOCH.with(|e| e.set(e.get().wrapping_add(1)));
}

/// (key, identity) of a value that was dropped a second time, or used after
/// its drop, since the last call - if any.
pub fn take_double_drop() -> Option<(i32, u32)> {
    DOUBLE_DROP.with(|d| d.take())
}

fn flag(k: i32, idx: u32) {
    DOUBLE_DROP.with(|d| {
        if d.get().is_none() {
            d.set(Some((k, idx)));
        }
    });
}

impl Tracked {
    pub fn new(k: i32, ver: u32) -> Self {
        Tracked { idx: arena_new(k, ver) }
    }
    #[inline]
    fn ent(&self) -> Ent {
        ARENA.with(|a| {
            let a = a.borrow();
            match a.get(self.idx as usize) {
                Some(e) => {
                    if e.dropped {
                        // use after drop through a bitwise duplicate
                        flag(e.k, self.idx);
                    }
                    *e
                }
                None => Ent { k: i32::MIN + 1, v: 0, dropped: true },
            }
        })
    }
    #[inline]
    pub fn key(&self) -> i32 {
        self.ent().k
    }
    #[inline]
    pub fn ver(&self) -> u32 {
        self.ent().v
    }
    #[inline]
    pub fn set_ver(&mut self, v: u32) {
        ARENA.with(|a| {
            if let Some(e) = a.borrow_mut().get_mut(self.idx as usize) {
                e.v = v;
            }
        });
    }
}
impl Clone for Tracked {
    fn clone(&self) -> Self {
        let e = self.ent();
        Tracked::new(e.k, e.v)
    }
}
impl Default for Tracked {
    fn default() -> Self {
        Tracked::new(i32::MIN, 0)
    }
}
impl std::fmt::Debug for Tracked {
    fn fmt(&self, f: &mut std::fmt::Formatter<'_>) -> std::fmt::Result {
        let e = self.ent();
        write!(f, "Tracked({}, {})", e.k, e.v)
    }
}
impl Drop for Tracked {
    fn drop(&mut self) {
        ARENA.with(|a| {
            if let Ok(mut a) = a.try_borrow_mut() {
                if let Some(e) = a.get_mut(self.idx as usize) {
                    if e.dropped {
                        // second drop of the same value
                        flag(e.k, self.idx);
                    } else {
                        e.dropped = true;
                    }
                }
            }
        });
    }
}

/// Value of the ordered set: carries its own key plus a payload.
#[derive(Clone, Debug, Default)]
pub struct Rec {
    pub key: IKey,
    pub payload: Tracked,
}
impl KeyValue<IKey> for Rec {
    #[inline]
    fn key(&self) -> &IKey {
        callback();
        &self.key
    }
}

/// Value of the segment tree.
#[derive(Clone, Copy, Debug)]
pub struct SegVal {
    pub id: u32,
    pub exp: i32,
}
impl ExpiredVal<i32> for SegVal {
    #[inline]
    fn expiration(&self) -> i32 {
        callback();
        self.exp
    }
}

/// Value of the segment tree in its narrow instantiation (`SegExpTree<R, u8, SegValN>`):
/// 8-bit expirations, a larger value.
#[derive(Clone, Copy, Debug)]
pub struct SegValN {
    pub id: u32,
    pub exp: u8,
    pub pad: [u32; 3],
}
impl ExpiredVal<u8> for SegValN {
    #[inline]
    fn expiration(&self) -> u8 {
        callback();
        self.exp
    }
}

// ---------------------------------------------------------------------------
// allocator seam

pub struct SimAlloc;

static ALLOC_ARMED: AtomicBool = AtomicBool::new(false);
static ALLOC_MAX_REQ: AtomicUsize = AtomicUsize::new(0);
static ALLOC_REQS: AtomicUsize = AtomicUsize::new(0);
static ALLOC_BYTES: AtomicUsize = AtomicUsize::new(0);
static ALLOC_HARD_LIMIT: AtomicUsize = AtomicUsize::new(usize::MAX);

unsafe impl GlobalAlloc for SimAlloc {
    #[inline]
    unsafe fn alloc(&self, l: Layout) -> *mut u8 {
        if ALLOC_ARMED.load(AO::Relaxed) {
            let sz = l.size();
            ALLOC_REQS.fetch_add(1, AO::Relaxed);
            ALLOC_BYTES.fetch_add(sz, AO::Relaxed);
            ALLOC_MAX_REQ.fetch_max(sz, AO::Relaxed);
            if sz > ALLOC_HARD_LIMIT.load(AO::Relaxed) {
                // the simulated machine does not have that much memory
                let msg = b"SIM-ALLOC-REFUSED request over the simulated memory limit\n";
                extern "C" {
                    fn write(fd: i32, buf: *const u8, n: usize) -> isize;
                }
                write(2, msg.as_ptr(), msg.len());
                return std::ptr::null_mut();
            }
        }
        System.alloc(l)
    }
    #[inline]
    unsafe fn dealloc(&self, p: *mut u8, l: Layout) {
        System.dealloc(p, l)
    }
    #[inline]
    unsafe fn realloc(&self, p: *mut u8, l: Layout, new_size: usize) -> *mut u8 {
        if ALLOC_ARMED.load(AO::Relaxed) {
            ALLOC_REQS.fetch_add(1, AO::Relaxed);
            ALLOC_BYTES.fetch_add(new_size, AO::Relaxed);
            ALLOC_MAX_REQ.fetch_max(new_size, AO::Relaxed);
            if new_size > ALLOC_HARD_LIMIT.load(AO::Relaxed) {
                let msg = b"SIM-ALLOC-REFUSED request over the simulated memory limit\n";
                extern "C" {
                    fn write(fd: i32, buf: *const u8, n: usize) -> isize;
                }
                write(2, msg.as_ptr(), msg.len());
                return std::ptr::null_mut();
            }
        }
        System.realloc(p, l, new_size)
    }
}

pub struct AllocReport {
    pub max_request: usize,
    pub requests: usize,
    pub bytes: usize,
}

/// Start observing (and bounding) the allocator. Requests above `hard_limit`
/// bytes are refused, which makes the process abort like a machine of that
/// size would; the worker isolation turns that into a reported failure.
pub fn alloc_arm(hard_limit: usize) {
    ALLOC_MAX_REQ.store(0, AO::Relaxed);
    ALLOC_REQS.store(0, AO::Relaxed);
    ALLOC_BYTES.store(0, AO::Relaxed);
    ALLOC_HARD_LIMIT.store(hard_limit, AO::Relaxed);
    ALLOC_ARMED.store(true, AO::SeqCst);
}

pub fn alloc_disarm() -> AllocReport {
    ALLOC_ARMED.store(false, AO::SeqCst);
    AllocReport {
        max_request: ALLOC_MAX_REQ.load(AO::Relaxed),
        requests: ALLOC_REQS.load(AO::Relaxed),
        bytes: ALLOC_BYTES.load(AO::Relaxed),
    }
}
