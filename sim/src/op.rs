//! Operations of a recorded history (one alphabet for all worlds), their
//! textual form used in replay files, and the failure record.

#[derive(Clone, Debug, PartialEq)]
pub enum Op {
    // ---- shared clock ----------------------------------------------------
    /// advance the simulated clock by dt >= 0 (saturating)
    Tick { dt: i32 },

    // ---- expiring-key world ---------------------------------------------
    KIns { k: i32, exp: i32 },
    KGet { k: i32, pexp: i32 },
    KLess { k: i32, pexp: i32 },
    KLeq { k: i32, pexp: i32 },
    /// comparator query; fl 0: |x| x.cmp(probe k), fl 1: x <= k ? Less : Greater, fl 2: x < k ? Less : Greater
    KLeqBy { k: i32, fl: u8 },
    KEmpty,
    /// all query kinds over the key window, at the current time
    KSweep,
    /// clear; `restart` >= 0 sets the clock back to that value (only ever lower than now)
    KClear { restart: i32 },
    /// consume the collection(s) into ordered vectors at time now + dt; ends the run
    KExport { dt: i32 },
    /// bulk build of a large tree (only on an empty world), no query in between: keys 0, 2, 4, ...
    /// 2(n-1) inserted ascending (pat % 2 == 0) or descending (1); pat / 2 selects what expires at
    /// the next tick: 0 nothing ("never"), 1 everything, 2 the middle third (a contiguous block),
    /// 3 every other key, 4 the lower half (the upper half one tick later)
    KBulk { n: i32, pat: u8 },

    // ---- ordered map / set world ----------------------------------------
    OIns { k: i32 },
    ODel { k: i32 },
    OGet { k: i32 },
    OEmpty,
    OClear,
    /// predecessor handle by key and by comparator (both flavours), checked against the model
    OFirst { p: i32 },
    /// acquire the predecessor handle of p, then read / write / delete through it
    OHRead { p: i32 },
    OHWrite { p: i32 },
    OHDel { p: i32 },
    /// acquire and keep a handle to stored key k (C17)
    OHold { k: i32 },
    /// neighbour steps from the entry with key k (set only)
    ONext { k: i32 },
    OPrev { k: i32 },
    /// walk the whole set forwards and backwards by neighbour steps
    OWalk,
    /// full observation sweep (lookup of every window key, emptiness; with sweep_mode 1 the only sweeps)
    OSweep,
    /// bulk build of a large collection (only on an empty one): n keys key_lo..key_lo+n inserted
    /// ascending (pat 0), descending (1), or lower half ascending then upper half descending (2);
    /// structure and contents are checked once at the end, not per insertion
    OBulk { n: i32, pat: u8 },

    // ---- segment world -------------------------------------------------
    SIns { a: i64, b: i64, exp: i32 },
    /// range query at the current time; take < 0: consume fully, else drop the iterator after `take` items
    SQuery { a: i64, b: i64, take: i32 },
    SClear { restart: i32 },
    /// n values with one and the same range and expiration (bucket lists of tens of thousands of copies)
    SBulk { a: i64, b: i64, n: i32, exp: i32 },
}

impl Op {
    pub fn kind(&self) -> &'static str {
        match self {
            Op::Tick { .. } => "Tick",
            Op::KIns { .. } => "KIns",
            Op::KGet { .. } => "KGet",
            Op::KLess { .. } => "KLess",
            Op::KLeq { .. } => "KLeq",
            Op::KLeqBy { .. } => "KLeqBy",
            Op::KEmpty => "KEmpty",
            Op::KSweep => "KSweep",
            Op::KClear { .. } => "KClear",
            Op::KExport { .. } => "KExport",
            Op::KBulk { .. } => "KBulk",
            Op::OIns { .. } => "OIns",
            Op::ODel { .. } => "ODel",
            Op::OGet { .. } => "OGet",
            Op::OEmpty => "OEmpty",
            Op::OClear => "OClear",
            Op::OFirst { .. } => "OFirst",
            Op::OHRead { .. } => "OHRead",
            Op::OHWrite { .. } => "OHWrite",
            Op::OHDel { .. } => "OHDel",
            Op::OHold { .. } => "OHold",
            Op::ONext { .. } => "ONext",
            Op::OPrev { .. } => "OPrev",
            Op::OWalk => "OWalk",
            Op::OSweep => "OSweep",
            Op::OBulk { .. } => "OBulk",
            Op::SIns { .. } => "SIns",
            Op::SQuery { .. } => "SQuery",
            Op::SClear { .. } => "SClear",
            Op::SBulk { .. } => "SBulk",
        }
    }

    pub fn to_text(&self) -> String {
        match self {
            Op::Tick { dt } => format!("Tick {}", dt),
            Op::KIns { k, exp } => format!("KIns {} {}", k, exp),
            Op::KGet { k, pexp } => format!("KGet {} {}", k, pexp),
            Op::KLess { k, pexp } => format!("KLess {} {}", k, pexp),
            Op::KLeq { k, pexp } => format!("KLeq {} {}", k, pexp),
            Op::KLeqBy { k, fl } => format!("KLeqBy {} {}", k, fl),
            Op::KEmpty => "KEmpty".into(),
            Op::KSweep => "KSweep".into(),
            Op::KClear { restart } => format!("KClear {}", restart),
            Op::KExport { dt } => format!("KExport {}", dt),
            Op::KBulk { n, pat } => format!("KBulk {} {}", n, pat),
            Op::OIns { k } => format!("OIns {}", k),
            Op::ODel { k } => format!("ODel {}", k),
            Op::OGet { k } => format!("OGet {}", k),
            Op::OEmpty => "OEmpty".into(),
            Op::OClear => "OClear".into(),
            Op::OFirst { p } => format!("OFirst {}", p),
            Op::OHRead { p } => format!("OHRead {}", p),
            Op::OHWrite { p } => format!("OHWrite {}", p),
            Op::OHDel { p } => format!("OHDel {}", p),
            Op::OHold { k } => format!("OHold {}", k),
            Op::ONext { k } => format!("ONext {}", k),
            Op::OPrev { k } => format!("OPrev {}", k),
            Op::OWalk => "OWalk".into(),
            Op::OSweep => "OSweep".into(),
            Op::OBulk { n, pat } => format!("OBulk {} {}", n, pat),
            Op::SIns { a, b, exp } => format!("SIns {} {} {}", a, b, exp),
            Op::SQuery { a, b, take } => format!("SQuery {} {} {}", a, b, take),
            Op::SClear { restart } => format!("SClear {}", restart),
            Op::SBulk { a, b, n, exp } => format!("SBulk {} {} {} {}", a, b, n, exp),
        }
    }

    pub fn parse(t: &str) -> Result<Op, String> {
        let mut it = t.split_whitespace();
        let name = it.next().ok_or("empty op")?;
        let mut nums: Vec<i64> = Vec::new();
        for x in it {
            nums.push(x.parse::<i64>().map_err(|e| format!("{}: {}", t, e))?);
        }
        let n = |i: usize| -> Result<i64, String> { nums.get(i).copied().ok_or(format!("{}: missing argument {}", t, i)) };
        let i = |i: usize| -> Result<i32, String> { n(i).map(|x| x as i32) };
        Ok(match name {
            "Tick" => Op::Tick { dt: i(0)? },
            "KIns" => Op::KIns { k: i(0)?, exp: i(1)? },
            "KGet" => Op::KGet { k: i(0)?, pexp: i(1)? },
            "KLess" => Op::KLess { k: i(0)?, pexp: i(1)? },
            "KLeq" => Op::KLeq { k: i(0)?, pexp: i(1)? },
            "KLeqBy" => Op::KLeqBy { k: i(0)?, fl: i(1)? as u8 },
            "KEmpty" => Op::KEmpty,
            "KSweep" => Op::KSweep,
            "KClear" => Op::KClear { restart: i(0)? },
            "KExport" => Op::KExport { dt: i(0)? },
            "KBulk" => Op::KBulk { n: i(0)?, pat: i(1)? as u8 },
            "OIns" => Op::OIns { k: i(0)? },
            "ODel" => Op::ODel { k: i(0)? },
            "OGet" => Op::OGet { k: i(0)? },
            "OEmpty" => Op::OEmpty,
            "OClear" => Op::OClear,
            "OFirst" => Op::OFirst { p: i(0)? },
            "OHRead" => Op::OHRead { p: i(0)? },
            "OHWrite" => Op::OHWrite { p: i(0)? },
            "OHDel" => Op::OHDel { p: i(0)? },
            "OHold" => Op::OHold { k: i(0)? },
            "ONext" => Op::ONext { k: i(0)? },
            "OPrev" => Op::OPrev { k: i(0)? },
            "OWalk" => Op::OWalk,
            "OSweep" => Op::OSweep,
            "OBulk" => Op::OBulk { n: i(0)?, pat: i(1)? as u8 },
            "SIns" => Op::SIns { a: n(0)?, b: n(1)?, exp: i(2)? },
            "SQuery" => Op::SQuery { a: n(0)?, b: n(1)?, take: i(2)? },
            "SClear" => Op::SClear { restart: i(0)? },
            "SBulk" => Op::SBulk { a: n(0)?, b: n(1)?, n: i(2)?, exp: i(3)? },
            _ => return Err(format!("unknown op {}", t)),
        })
    }
}

/// Pseudo crash point used by the C18 control runs: nothing is injected, but
/// the checks that follow an injected panic are evaluated all the same.
pub const CONTROL: u32 = u32::MAX - 1;

/// One step of a trace: the operation plus the crash point (callback
/// invocation index at which the injector panics), if any.
#[derive(Clone, Debug, PartialEq)]
pub struct Step {
    pub op: Op,
    pub panic_at: Option<u32>,
}

impl Step {
    pub fn plain(op: Op) -> Step {
        Step { op, panic_at: None }
    }
    pub fn to_text(&self) -> String {
        match self.panic_at {
            None => self.op.to_text(),
            Some(j) => format!("{} !{}", self.op.to_text(), j),
        }
    }
    pub fn parse(t: &str) -> Result<Step, String> {
        if let Some(pos) = t.find('!') {
            let j = t[pos + 1..].trim().parse::<u32>().map_err(|e| format!("{}: {}", t, e))?;
            Ok(Step { op: Op::parse(&t[..pos])?, panic_at: Some(j) })
        } else {
            Ok(Step { op: Op::parse(t)?, panic_at: None })
        }
    }
}

/// A violated oracle. `sig()` is the classification that must persist while
/// shrinking and that known-findings signatures are matched against.
#[derive(Clone, Debug)]
pub struct Failure {
    /// which oracle raised it (e.g. "key.pred", "struct", "crash")
    pub oracle: &'static str,
    /// collection under test ("KeyExpTree", ...)
    pub coll: &'static str,
    /// operation kind during / after which it was observed
    pub opkind: &'static str,
    /// mismatch | invariant | panic | abort | signal | hang | budget
    pub class: &'static str,
    /// stable, number-free refinement of the classification
    pub tag: String,
    /// free-form detail for humans
    pub detail: String,
}

impl Failure {
    pub fn sig(&self) -> String {
        format!("{}|{}|{}|{}|{}", self.oracle, self.coll, self.opkind, self.class, self.tag)
    }
}

pub enum Flow {
    Continue,
    End,
}
