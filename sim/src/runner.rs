//! One run: generation (scheduler + workload), recording, sanitised replay,
//! crash-point enumeration (C18) and trace (de)serialisation.

use crate::core::*;
use crate::json::{self, J};
use crate::op::{Failure, Flow, Op, Step};
use crate::props::{draw_plan, RunPlan};
use crate::rng::{mix, str_stream, Rng};
use crate::world_key::KeyWorld;
use crate::world_ord::OrdWorld;
use crate::world_seg::SegWorld;
use std::io::Write;

#[derive(Clone, Debug)]
pub struct Trace {
    pub cfg: Cfg,
    pub steps: Vec<Step>,
}

impl Trace {
    pub fn to_json(&self) -> J {
        J::obj().set("cfg", self.cfg.to_json()).set("steps", J::strs(self.steps.iter().map(|s| s.to_text())))
    }
    pub fn from_json(j: &J) -> Result<Trace, String> {
        let cfg = Cfg::from_json(j.get("cfg").ok_or("trace.cfg missing")?)?;
        let mut steps = Vec::new();
        for s in j.get("steps").and_then(|s| s.as_arr()).ok_or("trace.steps missing")? {
            steps.push(Step::parse(s.as_str().ok_or("step must be a string")?)?);
        }
        Ok(Trace { cfg, steps })
    }
}

pub enum Outcome {
    Pass,
    /// failure and the index (into the executed step list) at which it was raised
    Fail(Failure, usize),
    Inconclusive(String),
}

/// Construct the world. The constructors of the collections are calls into
/// iTree like any other: they run under the same guard (a panic or abort in a
/// constructor given in-contract arguments is a C10 matter, not a harness error).
pub fn make_world(cfg: &Cfg, rng: Option<&mut Rng>, ctx: &mut RunCtx) -> Result<Box<dyn World>, Stop> {
    let coll: &'static str = match cfg.world {
        WorldKind::Key => "KeyExpTree/KeyExpList",
        WorldKind::Map => "MapTree/MapList",
        WorldKind::Set => "SetTree/SetList",
        WorldKind::Seg => "SegExpTree",
    };
    ctx.op_index = 0;
    let c = cfg.clone();
    let (r, _) = call(ctx, cfg, coll, "new", "new", false, None, None, move || -> Result<Box<dyn World>, String> {
        Ok(match c.world {
            WorldKind::Key => Box::new(KeyWorld::new(c.clone(), rng)),
            WorldKind::Map | WorldKind::Set => Box::new(OrdWorld::new(c.clone(), rng)),
            WorldKind::Seg => Box::new(SegWorld::new(c.clone(), rng)?),
        })
    })?;
    match r {
        Called::Ok(Ok(w)) => Ok(w),
        Called::Ok(Err(e)) => Err(Stop::Inconclusive(e)),
        Called::Injected => Err(Stop::Inconclusive("injected panic during construction".into())),
    }
}

/// Upper bound on generated history length (set for the Miri spot check, where a run costs seconds).
pub static MAX_LEN: std::sync::atomic::AtomicUsize = std::sync::atomic::AtomicUsize::new(usize::MAX);

pub fn apply_tier_limits(tier: Option<&str>) {
    if tier == Some("miri") {
        MAX_LEN.store(40, std::sync::atomic::Ordering::Relaxed);
    }
}

pub fn run_seed(master: u64, prop: &str, index: u64) -> u64 {
    mix(master, str_stream(prop), index)
}

fn log_line(ctx: &mut RunCtx, s: &str) {
    if let Some(f) = ctx.trace_log.as_mut() {
        let _ = writeln!(f, "{}", s);
        let _ = f.flush();
    }
}

/// C19: bulk histories (n inserts in a given order, optional churn, export).
fn bulk_steps(plan: &RunPlan, r: &mut Rng) -> Vec<Step> {
    let (n, order, churn) = plan.bulk.unwrap();
    let mut steps = Vec::with_capacity(n + 8);
    let mut keys: Vec<i32> = (0..n as i32).map(|i| i * 2).collect();
    match order {
        0 => {}
        1 => keys.reverse(),
        // outward from the middle: every key arrives alternately below the minimum and above the maximum
        3 => {
            let sorted = keys.clone();
            let m = sorted.len() / 2;
            keys.clear();
            let (mut lo, mut hi) = (m as isize - 1, m);
            while lo >= 0 || hi < sorted.len() {
                if hi < sorted.len() {
                    keys.push(sorted[hi]);
                    hi += 1;
                }
                if lo >= 0 {
                    keys.push(sorted[lo as usize]);
                    lo -= 1;
                }
            }
        }
        // inward from both ends
        4 => {
            let sorted = keys.clone();
            keys.clear();
            let (mut lo, mut hi) = (0usize, sorted.len());
            while lo < hi {
                keys.push(sorted[lo]);
                lo += 1;
                if lo < hi {
                    hi -= 1;
                    keys.push(sorted[hi]);
                }
            }
        }
        // lower half ascending, then upper half descending (a long inner spine at the seam)
        5 => {
            let m = keys.len() / 2;
            keys[m..].reverse();
        }
        _ => {
            for i in (1..keys.len()).rev() {
                let j = r.below(i as u64 + 1) as usize;
                keys.swap(i, j);
            }
        }
    }
    let t0 = plan.cfg.t0;
    for (i, k) in keys.iter().enumerate() {
        let exp = if churn && i % 3 == 0 { t0.saturating_add(1 + (i % 5) as i32) } else { t0.saturating_add(1_000_000) };
        steps.push(Step::plain(Op::KIns { k: *k, exp }));
        if churn && i % 64 == 63 {
            steps.push(Step::plain(Op::Tick { dt: 1 }));
            steps.push(Step::plain(Op::KLeq { k: *k, pexp: 0 }));
        }
    }
    let dt = match r.below(4) {
        0 => 0,
        1 => 3,
        2 => 10,
        _ => 2_000_000,
    };
    steps.push(Step::plain(Op::KExport { dt }));
    steps
}

/// Generate and execute run `index` of `prop`. Returns the recorded trace
/// (every executed step, concrete arguments) and the outcome.
pub fn generate(prop: &str, master: u64, index: u64, thorough: bool, ctx: &mut RunCtx) -> (Trace, Outcome) {
    let seed = run_seed(master, prop, index);
    let mut r = Rng::new(seed);
    let plan = draw_plan(prop, index, &mut r, thorough);
    let cfg = plan.cfg.clone();
    let mut trace = Trace { cfg: cfg.clone(), steps: Vec::new() };
    log_line(ctx, &format!("cfg {}", cfg.to_json().to_string()));
    crate::instr::registry_reset();
    let mut world = match make_world(&cfg, Some(&mut r), ctx) {
        Ok(w) => w,
        Err(Stop::Fail(f)) => return (trace, Outcome::Fail(f, 0)),
        Err(Stop::Inconclusive(_)) if cfg.world == WorldKind::Seg && cfg.seg_hi - cfg.seg_lo < 16 => {
            // a domain of at most 16 points: the constructor returned None, as it must
            ctx.stats.bump("seg.constructor_refused_a_domain_of_16_points_or_fewer");
            ctx.stats.oracle_evals += 1;
            return (trace, Outcome::Pass);
        }
        Err(Stop::Inconclusive(e)) => return (trace, Outcome::Inconclusive(e)),
    };
    let preset: Option<Vec<Step>> = if plan.bulk.is_some() { Some(bulk_steps(&plan, &mut r)) } else { None };
    let len = preset.as_ref().map(|p| p.len()).unwrap_or(plan.len.min(MAX_LEN.load(std::sync::atomic::Ordering::Relaxed)));
    let miri = MAX_LEN.load(std::sync::atomic::Ordering::Relaxed) != usize::MAX;
    for i in 0..len {
        let step = match (preset.as_ref(), plan.ord_bulk) {
            (Some(p), _) => p[i].clone(),
            // segment tree: a value that expires exactly now and a full query come first, so that
            // the bulk happens on a tree that has been queried at this very time
            (None, Some(_)) if i == 0 && cfg.world == WorldKind::Seg && (plan.len > 12) => Step::plain(Op::SIns { a: cfg.seg_lo, b: cfg.seg_hi, exp: if cfg.key_ty == 1 { cfg.t0.clamp(0, 255) } else { cfg.t0 } }),
            (None, Some(_)) if i == 1 && cfg.world == WorldKind::Seg && (plan.len > 12) => Step::plain(Op::SQuery { a: cfg.seg_lo, b: cfg.seg_hi, take: -1 }),
            (None, Some((n, pat))) if (if cfg.world == WorldKind::Seg && plan.len > 12 { i == 2 } else { i == 0 }) && (!miri || n <= 300) => Step::plain(match cfg.world {
                WorldKind::Key => Op::KBulk { n, pat },
                WorldKind::Seg => {
                    // one range for all copies: the whole domain, a single point at either end, or the lower half
                    let (lo, hi) = (cfg.seg_lo, cfg.seg_hi);
                    let (a, b) = match pat % 4 {
                        0 => (lo, hi),
                        1 => (lo, lo),
                        2 => (hi, hi),
                        _ => (lo, lo + (hi - lo) / 2),
                    };
                    let exp = if cfg.key_ty == 1 { cfg.t0.clamp(0, 254) + 1 } else { cfg.t0.saturating_add(1) };
                    Op::SBulk { a, b, n, exp }
                }
                _ => Op::OBulk { n, pat },
            }),
            _ => Step::plain(world.gen(&mut r, ctx, len - i)),
        };
        if !world.legal(&step.op) {
            // generators only emit legal operations; a preset step may have become illegal
            continue;
        }
        ctx.op_index = trace.steps.len();
        if ctx.trace_log.is_some() {
            log_line(ctx, &format!("step {} {}", ctx.op_index, step.to_text()));
        }
        ctx.mix(crate::rng::str_stream(step.op.kind()) ^ (i as u64));
        trace.steps.push(step.clone());
        match world.apply(&step, ctx) {
            Ok(Flow::Continue) => {}
            Ok(Flow::End) => break,
            Err(Stop::Fail(f)) => {
                let at = trace.steps.len() - 1;
                return (trace, Outcome::Fail(f, at));
            }
            Err(Stop::Inconclusive(m)) => return (trace, Outcome::Inconclusive(m)),
        }
    }
    drop(world);
    if let Some(f) = double_drop_at_end(&cfg) {
        let at = trace.steps.len().saturating_sub(1);
        return (trace, Outcome::Fail(f, at));
    }
    (trace, Outcome::Pass)
}

/// Re-execute a recorded trace on a fresh world. Every step is first passed
/// through the contract sanitiser and dropped when it is not legal in the
/// model state reached so far. Returns the outcome and the steps executed.
pub fn replay(trace: &Trace, ctx: &mut RunCtx) -> (Outcome, Vec<Step>) {
    let (out, executed) = replay_inner(trace, ctx);
    // C18 (rule 8): a failure in a run with an injected panic counts only if the
    // panic is its cause. Control runs: the same executed history with the
    // post-panic checks but without the panic, and the history in which the
    // faulted operation is replaced by a neutral one carrying the same checks.
    if trace.cfg.has(O_TORN) {
        if let Outcome::Fail(f, at) = &out {
            if let Some(i) = executed.iter().position(|s| matches!(s.panic_at, Some(j) if j != crate::op::CONTROL)) {
                // the neutral operation looks at the same key as the faulted one, so that the
                // observation window of the control run is the window of the faulted run
                let neutral = match (&executed[i].op, trace.cfg.world) {
                    (Op::KIns { k, .. }, _) | (Op::KGet { k, .. }, _) | (Op::KLess { k, .. }, _) | (Op::KLeq { k, .. }, _) | (Op::KLeqBy { k, .. }, _) => Op::KGet { k: *k, pexp: i32::MAX },
                    (Op::OIns { k }, _) | (Op::ODel { k }, _) | (Op::OGet { k }, _) | (Op::OHold { k }, _) | (Op::ONext { k }, _) | (Op::OPrev { k }, _) => Op::OGet { k: *k },
                    (Op::OFirst { p }, _) | (Op::OHRead { p }, _) | (Op::OHWrite { p }, _) | (Op::OHDel { p }, _) => Op::OGet { k: *p },
                    (_, WorldKind::Key) | (_, WorldKind::Seg) => Op::Tick { dt: 0 },
                    _ => Op::OEmpty,
                };
                let mut c1 = Trace { cfg: trace.cfg.clone(), steps: executed.clone() };
                c1.steps[i].panic_at = Some(crate::op::CONTROL);
                let mut c2 = Trace { cfg: trace.cfg.clone(), steps: executed.clone() };
                c2.steps[i] = Step { op: neutral, panic_at: Some(crate::op::CONTROL) };
                for c in [c1, c2] {
                    log_line(ctx, "control-run");
                    let mut sub = RunCtx::new();
                    sub.collect_shapes = false;
                    sub.trace_log = ctx.trace_log.take();
                    let (oc, _) = replay_inner(&c, &mut sub);
                    ctx.trace_log = sub.trace_log.take();
                    if let Outcome::Fail(fc, _) = oc {
                        if fc.oracle == f.oracle && fc.class == f.class {
                            ctx.stats.bump("c18.failure_not_caused_by_the_fault");
                            let _ = at;
                            return (Outcome::Inconclusive(format!("fails with and without the injected panic: {}", f.detail)), executed);
                        }
                    }
                }
            }
        }
    }
    (out, executed)
}

fn replay_inner(trace: &Trace, ctx: &mut RunCtx) -> (Outcome, Vec<Step>) {
    let mut executed = Vec::new();
    log_line(ctx, &format!("cfg {}", trace.cfg.to_json().to_string()));
    crate::instr::registry_reset();
    let mut world = match make_world(&trace.cfg, None, ctx) {
        Ok(w) => w,
        Err(Stop::Fail(f)) => return (Outcome::Fail(f, 0), executed),
        Err(Stop::Inconclusive(_)) if trace.cfg.world == WorldKind::Seg && trace.cfg.seg_hi - trace.cfg.seg_lo < 16 => return (Outcome::Pass, executed),
        Err(Stop::Inconclusive(e)) => return (Outcome::Inconclusive(e), executed),
    };
    for step in &trace.steps {
        if !world.legal(&step.op) {
            ctx.stats.bump("replay.steps_dropped_by_sanitiser");
            continue;
        }
        ctx.op_index = executed.len();
        if ctx.trace_log.is_some() {
            log_line(ctx, &format!("step {} {}", ctx.op_index, step.to_text()));
        }
        executed.push(step.clone());
        match world.apply(step, ctx) {
            Ok(Flow::Continue) => {}
            Ok(Flow::End) => break,
            Err(Stop::Fail(f)) => {
                let at = executed.len() - 1;
                return (Outcome::Fail(f, at), executed);
            }
            Err(Stop::Inconclusive(m)) => return (Outcome::Inconclusive(m), executed),
        }
    }
    drop(world);
    if let Some(f) = double_drop_at_end(&trace.cfg) {
        let at = executed.len().saturating_sub(1);
        return (Outcome::Fail(f, at), executed);
    }
    (Outcome::Pass, executed)
}

/// Dropping the collection drops every value it still holds: a value that is
/// dropped there for the second time was duplicated bitwise earlier.
fn double_drop_at_end(cfg: &Cfg) -> Option<Failure> {
    let (k, id) = crate::instr::take_double_drop()?;
    if !cfg.has(O_OGET | O_CRASH) {
        return None;
    }
    Some(Failure {
        oracle: "value",
        coll: match cfg.world {
            WorldKind::Map => "MapTree",
            WorldKind::Set => "SetTree",
            _ => "?",
        },
        opkind: "drop",
        class: "invariant",
        tag: "stored value dropped twice".into(),
        detail: format!("dropping the collection dropped a value inserted for key {} (identity {}) a second time: it was duplicated bitwise instead of cloned (double free for heap values)", k, id),
    })
}

pub struct RunReport {
    pub trace: Trace,
    pub outcome: Outcome,
    /// number of executions this run performed (1, or 1 + injections for C18)
    pub evaluations: u64,
}

/// One run of a property, including the crash-point enumeration for C18.
pub fn run_property(prop: &str, master: u64, index: u64, thorough: bool, ctx: &mut RunCtx) -> RunReport {
    ctx.cb_counts.clear();
    let (trace, outcome) = generate(prop, master, index, thorough, ctx);
    if prop != "C18" {
        return RunReport { trace, outcome, evaluations: 1 };
    }
    match outcome {
        Outcome::Pass => {}
        Outcome::Fail(f, _) => {
            // no fault was injected yet: this history says nothing about C18
            return RunReport { trace, outcome: Outcome::Inconclusive(format!("fault-free history already fails: {}", f.detail)), evaluations: 1 };
        }
        o => return RunReport { trace, outcome: o, evaluations: 1 },
    }
    let counts = ctx.cb_counts.clone();
    let mut evals = 1u64;
    for (i, n) in counts.iter().enumerate() {
        if i >= trace.steps.len() {
            break;
        }
        for j in 0..*n {
            let mut t2 = trace.clone();
            t2.steps[i].panic_at = Some(j);
            let mut sub = RunCtx::new();
            sub.collect_shapes = false;
            let (out, _) = replay(&t2, &mut sub);
            evals += 1;
            ctx.stats.merge(&sub.stats);
            ctx.mix(sub.hash);
            ctx.stats.bump("c18.injection_points");
            match out {
                Outcome::Fail(f, at) => return RunReport { trace: t2, outcome: Outcome::Fail(f, at), evaluations: evals },
                Outcome::Inconclusive(_) => ctx.stats.bump("c18.inconclusive_injections"),
                Outcome::Pass => {}
            }
        }
    }
    RunReport { trace, outcome: Outcome::Pass, evaluations: evals }
}

pub fn parse_trace_file(path: &str) -> Result<(Trace, J), String> {
    let s = std::fs::read_to_string(path).map_err(|e| format!("{}: {}", path, e))?;
    let j = json::parse(&s)?;
    let t = Trace::from_json(j.get("trace").unwrap_or(&j))?;
    Ok((t, j))
}
